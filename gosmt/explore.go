package main

import (
	"fmt"
	"os"
	"sort"
	"strings"
	"sync"
	"time"

	"golang.org/x/tools/go/ssa"
)

// HarnessCfg: bounds and switches of one harness run.
type HarnessCfg struct {
	Pkg       string `json:"pkg"`   // import path suffix, e.g. "packet"
	Entry     string `json:"entry"` // harness function name
	Unwind    int    `json:"unwind"`
	MaxDepth  int    `json:"max_depth"`
	MaxSteps  int    `json:"max_steps"`
	Preempt   int    `json:"preempt"`
	MaxFaults int    `json:"max_faults"`
	MapOrder  bool   `json:"map_order"`
	PoolReuse bool   `json:"pool_reuse"`
	Lockset   bool   `json:"lockset"`
	MaxPaths  int    `json:"max_paths"`
	Covers    []string `json:"covers"` // cover labels that must be reached
	Note      string `json:"note"`
	TimeoutS  int    `json:"timeout_s"`
	Witnesses int    `json:"witnesses"` // path witnesses to validate natively
	CrossSkip string `json:"cross_skip"` // solvers to skip in the thorough cross-check
	Params    map[string]int `json:"params"` // harness parameters read with vParam
	Solver    string `json:"solver"` // primary solver for this harness (default cvc5-int)
	SchedBudget int  `json:"sched_budget"` // explore all orders at the first N free scheduling choices of a path (0 = at all)
	Stubs     map[string]string `json:"stubs"` // full name of an external/dependency function -> harness function that models it

	stubs        map[string]*ssa.Function
	growMonitors []func(ex *Exec, n *Term)
}

type RunResult struct {
	Cfg          *HarnessCfg
	Paths        int // completed feasible paths
	Infeasible   int
	Decisions    int
	Steps        int
	Obligations  int
	Discharged   int
	Violations   []*Violation
	Inconclusive []string
	Covers       map[string]int
	Queries      int
	SatN, UnsatN, UnknownN int
	SolverTime   time.Duration
	Wall         time.Duration
	Funcs        map[string]int
	SamplePaths  []string
	Threads      int
	MaxThreads   int
	SolverErrors int
	Fallbacks    int
	Witnesses    []map[string]interface{}
	KFModels     map[string]map[string]interface{}
	witnessAsked int
}

type workItem struct{ prefix []int }

// Explore runs the harness exhaustively (within bounds) with nWorkers solver processes.
func Explore(P *Program, cfg *HarnessCfg, nWorkers int, solverKind string, timeoutMs int) *RunResult {
	start := time.Now()
	res := &RunResult{Cfg: cfg, Covers: map[string]int{}, Funcs: map[string]int{}}
	entry := P.findEntry(cfg.Pkg, cfg.Entry)
	if entry == nil {
		res.Inconclusive = append(res.Inconclusive, fmt.Sprintf("harness %s.%s not found", cfg.Pkg, cfg.Entry))
		return res
	}
	if len(cfg.Stubs) > 0 {
		cfg.stubs = map[string]*ssa.Function{}
		for name, model := range cfg.Stubs {
			f := P.findEntry(cfg.Pkg, model)
			if f == nil {
				res.Inconclusive = append(res.Inconclusive, fmt.Sprintf("stub model %s.%s not found", cfg.Pkg, model))
				return res
			}
			cfg.stubs[name] = f
		}
	}
	if cfg.Unwind == 0 {
		cfg.Unwind = 8
	}
	if cfg.MaxDepth == 0 {
		cfg.MaxDepth = 200
	}
	if cfg.MaxSteps == 0 {
		cfg.MaxSteps = 3000000
	}
	if cfg.MaxFaults == 0 {
		cfg.MaxFaults = 1 << 30
	}
	if cfg.MaxPaths == 0 {
		cfg.MaxPaths = 2000000
	}
	var deadline time.Time
	if cfg.TimeoutS > 0 {
		deadline = start.Add(time.Duration(cfg.TimeoutS) * time.Second)
	}

	var mu sync.Mutex
	cond := sync.NewCond(&mu)
	work := []workItem{{nil}}
	active := 0
	stop := false
	violKeys := map[string]bool{}
	inconKeys := map[string]bool{}

	var wg sync.WaitGroup
	for w := 0; w < nWorkers; w++ {
		wg.Add(1)
		go func(wid int) {
			defer wg.Done()
			pto := timeoutMs
			if fallbackFor(solverKind) != "" && pto > 8000 {
				pto = 8000 // the fallback solver gets the full budget
			}
			solver, err := NewSolver(solverKind, pto)
			if err != nil {
				mu.Lock()
				res.Inconclusive = append(res.Inconclusive, "solver start: "+err.Error())
				stop = true
				cond.Broadcast()
				mu.Unlock()
				return
			}
			if lf := os.Getenv("GOSMT_SMTLOG"); lf != "" && wid == 0 {
				f, _ := os.Create(lf)
				solver.log = f
			}
			defer solver.Close()
			var solver2 *Solver
			if fb := fallbackFor(solverKind); fb != "" {
				solver2, _ = NewSolver(fb, timeoutMs)
				if solver2 != nil {
					defer solver2.Close()
				}
			}
			// third stage for queries both give up on (the primary was capped at 8 s, the fallback
			// may be the wrong tool for the query): the primary kind again, fresh, three times the budget
			var solver3 *Solver
			defer func() {
				if solver3 != nil {
					mu.Lock()
					res.Fallbacks += solver3.Queries
					res.UnknownN -= solver3.SatN + solver3.UnsatN
					res.SatN += solver3.SatN
					res.UnsatN += solver3.UnsatN
					res.SolverTime += solver3.Time
					mu.Unlock()
					solver3.Close()
				}
			}()
			s3 := func() *Solver {
				if solver3 == nil && solver2 != nil {
					solver3, _ = NewSolver(solverKind, 2*timeoutMs)
				}
				return solver3
			}
			for {
				mu.Lock()
				for len(work) == 0 && active > 0 && !stop {
					cond.Wait()
				}
				if stop || (len(work) == 0 && active == 0) {
					cond.Broadcast()
					mu.Unlock()
					break
				}
				it := work[len(work)-1]
				work = work[:len(work)-1]
				active++
				mu.Unlock()

				wantW := false
				mu.Lock()
				if res.witnessAsked < cfg.Witnesses {
					res.witnessAsked++
					wantW = true
				}
				mu.Unlock()
				pr := runOnePath(P, cfg, entry, solver, solver2, s3, deadline, it.prefix, wantW)

				mu.Lock()
				active--
				if wantW && pr.witness == nil {
					res.witnessAsked--
				}
				for id, m := range pr.kfModels {
					if res.KFModels == nil {
						res.KFModels = map[string]map[string]interface{}{}
					}
					res.KFModels[id] = m
				}
				for _, a := range pr.alts {
					work = append(work, workItem{a})
				}
				res.Decisions += len(pr.trace)
				res.Steps += pr.steps
				res.Obligations += pr.obligations
				res.Discharged += pr.discharged
				if pr.nthreads > res.MaxThreads {
					res.MaxThreads = pr.nthreads
				}
				for fn, n := range pr.funcs {
					res.Funcs[fn] += n
				}
				switch pr.end.kind {
				case "done", "violated":
					res.Paths++
					for _, l := range pr.covers {
						res.Covers[l]++
					}
					if pr.witness != nil {
						if _, bad := pr.witness["_error"]; !bad {
							res.Witnesses = append(res.Witnesses, pr.witness)
						}
					}
					if len(res.SamplePaths) < 5 {
						res.SamplePaths = append(res.SamplePaths, pr.sample)
					}
				case "infeasible":
					res.Infeasible++
				default:
					key := pr.end.kind + ": " + pr.end.msg
					if !inconKeys[key] {
						inconKeys[key] = true
						res.Inconclusive = append(res.Inconclusive, key)
					}
					res.Paths++
				}
				if pr.unknown {
					key := "solver returned unknown/timeout on a path query"
					if !inconKeys[key] {
						inconKeys[key] = true
						res.Inconclusive = append(res.Inconclusive, key)
					}
				}
				for _, v := range pr.violations {
					key := v.Kind + "|" + v.Msg + "|" + v.Where
					if !violKeys[key] {
						violKeys[key] = true
						res.Violations = append(res.Violations, v)
					}
				}
				if res.Paths+res.Infeasible >= cfg.MaxPaths {
					if !inconKeys["maxpaths"] {
						inconKeys["maxpaths"] = true
						res.Inconclusive = append(res.Inconclusive, fmt.Sprintf("path limit %d reached", cfg.MaxPaths))
					}
					stop = true
				}
				if !deadline.IsZero() && time.Now().After(deadline) {
					if !inconKeys["timeout"] {
						inconKeys["timeout"] = true
						res.Inconclusive = append(res.Inconclusive, fmt.Sprintf("harness time limit %ds reached with %d prefixes pending", cfg.TimeoutS, len(work)))
					}
					stop = true
				}
				if len(res.Violations) >= 20 {
					stop = true
				}
				cond.Broadcast()
				mu.Unlock()
			}
			mu.Lock()
			if solver2 != nil {
				res.Fallbacks += solver2.Queries
				res.UnknownN -= solver2.SatN + solver2.UnsatN
				res.SatN += solver2.SatN
				res.UnsatN += solver2.UnsatN
				res.SolverTime += solver2.Time
			}
			res.Queries += solver.Queries
			res.SatN += solver.SatN
			res.UnsatN += solver.UnsatN
			res.UnknownN += solver.UnknownN
			res.SolverTime += solver.Time
			res.SolverErrors += solver.Errors
			mu.Unlock()
		}(w)
	}
	wg.Wait()
	if res.SolverErrors > 0 {
		res.Inconclusive = append(res.Inconclusive, fmt.Sprintf("%d solver (error ...) lines", res.SolverErrors))
	}
	for _, l := range cfg.Covers {
		if res.Covers[l] == 0 {
			res.Inconclusive = append(res.Inconclusive, "vacuous: cover point "+l+" never reached")
		}
	}
	sort.Slice(res.Violations, func(i, j int) bool {
		return res.Violations[i].Msg < res.Violations[j].Msg
	})
	res.Wall = time.Since(start)
	return res
}

type pathResult struct {
	end         pathEnd
	trace       []Decision
	alts        [][]int
	violations  []*Violation
	covers      []string
	steps       int
	obligations int
	discharged  int
	unknown     bool
	funcs       map[string]int
	sample      string
	nthreads    int
	witness     map[string]interface{}
	kfModels    map[string]map[string]interface{}
}

func runOnePath(P *Program, cfg *HarnessCfg, entry *ssa.Function, solver, solver2 *Solver, solver3 func() *Solver, deadline time.Time, prefix []int, wantWitness bool) (pr pathResult) {
	ex := &Exec{
		P: P, ctx: NewCtx(), solver: solver, solver2: solver2, solver3: solver3, deadline: deadline, cfg: cfg, entry: entry, prefix: prefix,
		globals: map[*ssa.Global]*Object{}, mutexes: map[string]*MutexState{},
		tagCount: map[string]int{}, covers: map[string]bool{}, fnsSeen: map[*ssa.Function]int{},
		pools: map[string][]Value{}, idxMemo: map[string]*Term{}, maxOf: map[*Object]int{},
		timerObjs: map[*Object]*Timer{}, lockViol: map[string]bool{}, unsatCache: map[uint32]bool{}, harnessFn: map[*ssa.Function]bool{},
	}
	solver.Reset()
	defer func() {
		if r := recover(); r != nil {
			if pe, ok := r.(pathEnd); ok {
				pr.end = pe
			} else {
				pr.end = pathEnd{"unsupported", fmt.Sprintf("engine panic: %v at %s", r, ex.whereSafe())}
				if os.Getenv("GOSMT_DEBUG") != "" {
					panic(r)
				}
			}
		}
		pr.trace = ex.trace
		pr.alts = ex.alts
		pr.violations = ex.violations
		pr.covers = ex.coverList()
		pr.steps = ex.steps
		pr.obligations = ex.obligations
		pr.discharged = ex.discharged
		pr.unknown = ex.sawUnknown
		pr.nthreads = len(ex.threads)
		pr.kfModels = ex.kfModels
		pr.funcs = map[string]int{}
		for fn := range ex.fnsSeen {
			pr.funcs[fn.String()] = len(fnInstrs(fn))
		}
		var sb strings.Builder
		for _, d := range ex.trace {
			fmt.Fprintf(&sb, "%d", d.Choice)
		}
		pr.sample = fmt.Sprintf("decisions=%s inputs=%d pc_terms=%d threads=%d", sb.String(), len(ex.inputs), len(ex.pc), len(ex.threads))
	}()
	main := ex.newThread("main")
	main.isMain = true
	ex.cur = main
	// package initialisers (dependency order), then the harness
	for _, pkg := range P.initPkgs {
		initFn := pkg.Func("init")
		if initFn == nil || len(initFn.Blocks) == 0 {
			continue
		}
		done := false
		fr := ex.pushFrame(main, initFn, nil, nil, nil)
		fr.onReturn = func(Value) { done = true }
		for !done {
			ex.steps++
			ex.step(main)
		}
	}
	ex.steps = 0
	ex.pushFrame(main, entry, nil, nil, nil)
	ex.run()
	if wantWitness {
		pr.witness = ex.model(ex.ctx.True)
	}
	pr.end = pathEnd{"done", ""}
	return
}

func (ex *Exec) whereSafe() (s string) {
	defer func() {
		if recover() != nil {
			s = "?"
		}
	}()
	return ex.where()
}

func fnInstrs(fn *ssa.Function) []ssa.Instruction {
	var l []ssa.Instruction
	for _, b := range fn.Blocks {
		l = append(l, b.Instrs...)
	}
	return l
}

// fallbackFor names the solver that re-decides queries the primary gives up on.
func fallbackFor(kind string) string {
	switch kind {
	case "cvc5-int":
		return "z3-new"
	case "z3-new", "z3":
		return "cvc5-int"
	case "cvc5":
		return "z3-new"
	}
	return ""
}
