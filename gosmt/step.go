package main

import (
	"fmt"
	"go/token"
	"go/types"

	"golang.org/x/tools/go/ssa"
)

func (ex *Exec) step(th *Thread) {
	fr := ex.top(th)
	if fr.pc >= len(fr.block.Instrs) {
		panic(ex.unsupported("fell off block in " + fr.fn.String()))
	}
	ins := fr.block.Instrs[fr.pc]
	ex.curInstr = ins
	c := ex.ctx
	switch x := ins.(type) {
	case *ssa.DebugRef:
		fr.pc++
	case *ssa.Alloc:
		et := x.Type().(*types.Pointer).Elem()
		var o *Object
		if at, ok := et.Underlying().(*types.Array); ok && isByteKind(at.Elem()) {
			o = ex.newByteObject(c.I64(at.Len()), zeroSeq{})
		} else {
			o = ex.newObject(et, ex.zero(et))
		}
		ex.set(fr, x, Ptr{obj: o})
		fr.pc++
	case *ssa.BinOp:
		ex.set(fr, x, ex.binop(x.Op, ex.get(fr, x.X), ex.get(fr, x.Y), x.X.Type(), x.Y.Type()))
		fr.pc++
	case *ssa.UnOp:
		if x.Op == token.ARROW {
			ex.recv(th, fr, x)
			return
		}
		ex.set(fr, x, ex.unop(x, ex.get(fr, x.X)))
		fr.pc++
	case *ssa.Call:
		ex.call(th, fr, x.Common(), x)
	case *ssa.ChangeInterface:
		ex.set(fr, x, ex.get(fr, x.X))
		fr.pc++
	case *ssa.ChangeType:
		ex.set(fr, x, ex.get(fr, x.X))
		fr.pc++
	case *ssa.Convert:
		ex.set(fr, x, ex.convert(ex.get(fr, x.X), x.X.Type(), x.Type()))
		fr.pc++
	case *ssa.Defer:
		fv, args := ex.resolveCall(fr, x.Common())
		fr.defers = append(fr.defers, deferred{fv, args})
		fr.pc++
	case *ssa.RunDefers:
		if len(fr.defers) == 0 {
			fr.pc++
			return
		}
		d := fr.defers[len(fr.defers)-1]
		fr.defers = fr.defers[:len(fr.defers)-1]
		ex.invoke(th, fr, d.fn, d.args, nil, true)
	case *ssa.Extract:
		ex.set(fr, x, ex.get(fr, x.Tuple).(Tuple)[x.Index])
		fr.pc++
	case *ssa.Field:
		sv := ex.get(fr, x.X).(*StructVal)
		ex.set(fr, x, copyVal(sv.f[x.Field]))
		fr.pc++
	case *ssa.FieldAddr:
		p := ex.get(fr, x.X).(Ptr)
		ex.nilCheck(p, "field address")
		np := Ptr{obj: p.obj, path: append(append([]int(nil), p.path...), x.Field)}
		ex.set(fr, x, np)
		fr.pc++
	case *ssa.Index:
		ex.set(fr, x, ex.indexVal(ex.get(fr, x.X), ex.get(fr, x.Index).(*Term), x.X.Type()))
		fr.pc++
	case *ssa.IndexAddr:
		ex.set(fr, x, ex.indexAddr(ex.get(fr, x.X), ex.get(fr, x.Index).(*Term), x.X.Type()))
		fr.pc++
	case *ssa.If:
		cond := ex.get(fr, x.Cond).(*Term)
		if ex.branch(cond) {
			ex.jump(fr, fr.block.Succs[0])
		} else {
			ex.jump(fr, fr.block.Succs[1])
		}
	case *ssa.Jump:
		ex.jump(fr, fr.block.Succs[0])
	case *ssa.Phi:
		panic(ex.unsupported("phi reached in step"))
	case *ssa.Return:
		var ret Value
		switch len(x.Results) {
		case 0:
			ret = nil
		case 1:
			ret = ex.get(fr, x.Results[0])
		default:
			t := make(Tuple, len(x.Results))
			for i, r := range x.Results {
				t[i] = ex.get(fr, r)
			}
			ret = t
		}
		ex.popFrame(th, ret)
	case *ssa.Panic:
		v := ex.get(fr, x.X)
		ex.violationHere("panic", "panic reached: "+ex.describe(v))
		panic(pathEnd{"violated", "panic"})
	case *ssa.Lookup:
		ex.lookup(fr, x)
		fr.pc++
	case *ssa.MakeInterface:
		ex.set(fr, x, IfaceVal{t: x.X.Type(), v: ex.get(fr, x.X)})
		fr.pc++
	case *ssa.MakeMap:
		mt := x.Type().Underlying().(*types.Map)
		ex.nextMap++
		m := &MapObj{id: ex.nextMap, keyT: mt.Key(), valT: mt.Elem()}
		m.obj = ex.newObject(nil, nil)
		ex.set(fr, x, MapVal{m})
		fr.pc++
	case *ssa.MapUpdate:
		mv := ex.get(fr, x.Map).(MapVal)
		if mv.m == nil {
			ex.violationHere("nil-map", "assignment to entry in nil map")
			panic(pathEnd{"violated", "nil map"})
		}
		ex.mapUpdate(mv.m, ex.get(fr, x.Key), ex.get(fr, x.Value))
		fr.pc++
	case *ssa.MakeSlice:
		ex.set(fr, x, ex.makeSlice(x.Type(), ex.get(fr, x.Len).(*Term), ex.get(fr, x.Cap).(*Term)))
		fr.pc++
	case *ssa.MakeChan:
		n := ex.get(fr, x.Size).(*Term)
		sz := ex.concretize(c.SExt(n, 64), 0, 64, "channel size")
		ex.nextChan++
		ch := &ChanObj{id: ex.nextChan, cap: int(sz), elemT: x.Type().Underlying().(*types.Chan).Elem()}
		ex.set(fr, x, ChanVal{ch})
		fr.pc++
	case *ssa.MakeClosure:
		fn := x.Fn.(*ssa.Function)
		env := make([]Value, len(x.Bindings))
		for i, b := range x.Bindings {
			env[i] = ex.get(fr, b)
		}
		ex.set(fr, x, &FuncVal{fn: fn, env: env})
		fr.pc++
	case *ssa.Slice:
		ex.set(fr, x, ex.sliceOp(fr, x))
		fr.pc++
	case *ssa.Store:
		ex.store(ex.get(fr, x.Addr).(Ptr), ex.get(fr, x.Val))
		fr.pc++
	case *ssa.TypeAssert:
		ex.typeAssert(fr, x)
		fr.pc++
	case *ssa.Range:
		ex.set(fr, x, ex.makeRange(ex.get(fr, x.X)))
		fr.pc++
	case *ssa.Next:
		ex.set(fr, x, ex.next(ex.get(fr, x.Iter).(*RangeIter), x))
		fr.pc++
	case *ssa.Select:
		ex.selectOp(th, fr, x)
	case *ssa.Send:
		ex.send(th, fr, x)
	case *ssa.Go:
		fv, args := ex.resolveCall(fr, x.Common())
		nt := ex.newThread(fmt.Sprintf("go@%s", fr.fn.Name()))
		ex.invoke(nt, nil, fv, args, nil, false)
		fr.pc++
		ex.schedPoint(th)
	default:
		panic(ex.unsupported(fmt.Sprintf("instruction %T", ins)))
	}
}

func (ex *Exec) describe(v Value) string {
	switch x := v.(type) {
	case IfaceVal:
		if x.IsNil() {
			return "nil"
		}
		return ex.describe(x.v)
	case *StrVal:
		if s, ok := x.concrete(); ok {
			return s
		}
		return "<symbolic string>"
	case *Term:
		if x.IsConst() {
			return fmt.Sprint(x.k)
		}
		return "<symbolic>"
	case Ptr:
		if x.obj != nil && x.obj.bytes == nil {
			if sv, ok := x.obj.val.(*StructVal); ok && len(sv.f) > 0 {
				// error values: print first string field
				for _, f := range sv.f {
					if s, ok := f.(*StrVal); ok {
						if cs, ok := s.concrete(); ok {
							return cs
						}
					}
				}
			}
		}
		return "<ptr>"
	}
	return fmt.Sprintf("<%T>", v)
}

// ---------- calls ----------

// resolveCall evaluates callee and arguments of a call site.
func (ex *Exec) resolveCall(fr *Frame, cc *ssa.CallCommon) (*FuncVal, []Value) {
	var args []Value
	if cc.IsInvoke() {
		recv := ex.get(fr, cc.Value).(IfaceVal)
		if recv.IsNil() {
			ex.violationHere("nil-deref", "method call on nil interface ("+cc.Method.Name()+")")
			panic(pathEnd{"violated", "nil interface call"})
		}
		fn := ex.P.prog.LookupMethod(recv.t, cc.Method.Pkg(), cc.Method.Name())
		if fn == nil {
			panic(ex.unsupported(fmt.Sprintf("method %s not found on %s", cc.Method.Name(), recv.t)))
		}
		args = append(args, recv.v)
		for _, a := range cc.Args {
			args = append(args, ex.get(fr, a))
		}
		return &FuncVal{fn: fn}, args
	}
	fvv := ex.get(fr, cc.Value)
	fv, _ := fvv.(*FuncVal)
	if fv == nil {
		ex.violationHere("nil-deref", "call of nil function")
		panic(pathEnd{"violated", "nil func call"})
	}
	for _, a := range cc.Args {
		args = append(args, ex.get(fr, a))
	}
	return fv, args
}

func (ex *Exec) call(th *Thread, fr *Frame, cc *ssa.CallCommon, res *ssa.Call) {
	fv, args := ex.resolveCall(fr, cc)
	ex.invoke(th, fr, fv, args, res, false)
}

// invoke calls fv. For synchronous intrinsics the result is stored and pc advanced
// (unless stay is set, as for RunDefers). caller may be nil for a new thread.
func (ex *Exec) invoke(th *Thread, caller *Frame, fv *FuncVal, args []Value, res *ssa.Call, stay bool) {
	finish := func(ret Value) {
		if caller == nil {
			th.state = Done
			return
		}
		if res != nil {
			ex.set(caller, res, ret)
		}
		if !stay {
			caller.pc++
		}
	}
	if fv.fn == nil {
		// builtin
		ret := ex.builtin(fv.name, args, res)
		finish(ret)
		return
	}
	fn := fv.fn
	name := fn.String()
	if h, ok := intrinsics[name]; ok {
		if h(ex, th, caller, args, res, finish) {
			return
		}
	}
	if fn.Pkg != nil && len(fn.Blocks) == 0 && isVName(fn.Name()) {
		ex.vcall(th, caller, fn.Name(), args, finish)
		return
	}
	if fn.Name() == "init" && fn.Pkg != nil && !ex.P.execInit[fn.Pkg] && fn.Signature.Recv() == nil {
		finish(nil)
		return
	}
	if s, ok := ex.cfg.stubs[name]; ok {
		fn = s
	}
	if len(fn.Blocks) == 0 {
		panic(ex.unsupported("external function " + name))
	}
	var r ssa.Value
	if res != nil {
		r = res
	}
	nf := ex.pushFrame(th, fn, args, fv.env, r)
	if caller == nil {
		// thread entry: when it returns the thread is done
		_ = nf
	}
}

func isVName(n string) bool {
	return len(n) > 1 && n[0] == 'v' && n[1] >= 'A' && n[1] <= 'Z'
}

// callFunc pushes a frame for fv and arranges cont to run with its result.
func (ex *Exec) callFunc(th *Thread, fv *FuncVal, args []Value, cont func(ret Value)) {
	if fv.fn == nil || len(fv.fn.Blocks) == 0 {
		panic(ex.unsupported("callback to builtin/external"))
	}
	fr := ex.pushFrame(th, fv.fn, args, fv.env, nil)
	fr.onReturn = cont
}
