package main

// Term DAG: SMT terms (Bool and bit-vectors up to 64 bits) with hash-consing and
// constant folding. One Ctx per worker; never shared between goroutines.

import (
	"fmt"
	"math/bits"
	"strings"
)

type Op uint8

const (
	OpConst Op = iota
	OpVar
	OpApp // uninterpreted byte array: name(idx64) -> bv8
	OpNot
	OpAnd
	OpOr
	OpEq
	OpIte
	OpAdd
	OpSub
	OpMul
	OpUDiv
	OpURem
	OpSDiv
	OpSRem
	OpBAnd
	OpBOr
	OpBXor
	OpShl
	OpLShr
	OpAShr
	OpBNot
	OpNeg
	OpUlt
	OpUle
	OpSlt
	OpSle
	OpExtract // k = hi<<8|lo
	OpZExt
	OpSExt
	OpConcat
)

var opNames = map[Op]string{
	OpNot: "not", OpAnd: "and", OpOr: "or", OpEq: "=", OpIte: "ite",
	OpAdd: "bvadd", OpSub: "bvsub", OpMul: "bvmul", OpUDiv: "bvudiv", OpURem: "bvurem",
	OpSDiv: "bvsdiv", OpSRem: "bvsrem", OpBAnd: "bvand", OpBOr: "bvor", OpBXor: "bvxor",
	OpShl: "bvshl", OpLShr: "bvlshr", OpAShr: "bvashr", OpBNot: "bvnot", OpNeg: "bvneg",
	OpUlt: "bvult", OpUle: "bvule", OpSlt: "bvslt", OpSle: "bvsle", OpConcat: "concat",
}

type Term struct {
	op   Op
	w    int // 0 = Bool, else bit width
	a    *Term
	b    *Term
	c    *Term
	k    uint64
	name string
	id   uint32
	lo   uint64 // unsigned value range (bit-vectors): lo <= value <= hi
	hi   uint64
}

type termKey struct {
	op      Op
	w       int
	a, b, c uint32
	k       uint64
	name    string
}

type Ctx struct {
	tab    map[termKey]*Term
	nextID uint32
	True   *Term
	False  *Term
	fresh  int
	varRange map[string][2]uint64
	linCache map[uint32]*linForm
}

func NewCtx() *Ctx {
	c := &Ctx{tab: make(map[termKey]*Term)}
	c.True = c.mk(OpConst, 0, nil, nil, nil, 1, "")
	c.False = c.mk(OpConst, 0, nil, nil, nil, 0, "")
	return c
}

func tid(t *Term) uint32 {
	if t == nil {
		return 0
	}
	return t.id
}

func (c *Ctx) mk(op Op, w int, a, b, cc *Term, k uint64, name string) *Term {
	key := termKey{op, w, tid(a), tid(b), tid(cc), k, name}
	if t, ok := c.tab[key]; ok {
		return t
	}
	c.nextID++
	t := &Term{op: op, w: w, a: a, b: b, c: cc, k: k, name: name, id: c.nextID}
	if w > 0 {
		t.lo, t.hi = c.rangeOf(t)
	}
	c.tab[key] = t
	return t
}

func bitsFor(v uint64) uint64 { // smallest 2^n-1 >= v
	if v == 0 {
		return 0
	}
	return (uint64(1)<<uint(bits.Len64(v)) - 1) | v
}

// rangeOf computes a sound unsigned interval for a freshly built bit-vector term.
func (c *Ctx) rangeOf(t *Term) (uint64, uint64) {
	m := mask(t.w)
	full := func() (uint64, uint64) { return 0, m }
	switch t.op {
	case OpConst:
		return t.k, t.k
	case OpVar:
		if r, ok := c.varRange[t.name]; ok {
			return r[0], r[1]
		}
		return full()
	case OpApp:
		return 0, 255
	case OpZExt:
		return t.a.lo, t.a.hi
	case OpIte:
		lo, hi := t.b.lo, t.b.hi
		if t.c.lo < lo {
			lo = t.c.lo
		}
		if t.c.hi > hi {
			hi = t.c.hi
		}
		return lo, hi
	case OpAdd:
		a, b := t.a, t.b
		// b negative constant: a - k'
		if b.IsConst() && t.w == 64 && b.k>>63 == 1 {
			k := -b.k
			if a.lo >= k {
				return a.lo - k, a.hi - k
			}
			return full()
		}
		hs := a.hi + b.hi
		if hs < a.hi || hs > m {
			return full()
		}
		return a.lo + b.lo, hs
	case OpSub:
		a, b := t.a, t.b
		if a.lo >= b.hi {
			return a.lo - b.hi, a.hi - b.lo
		}
		return full()
	case OpMul:
		a, b := t.a, t.b
		if a.hi != 0 && b.hi > m/a.hi {
			return full()
		}
		return a.lo * b.lo, a.hi * b.hi
	case OpUDiv:
		if t.b.lo > 0 {
			return t.a.lo / t.b.hi, t.a.hi / t.b.lo
		}
		return full()
	case OpURem:
		if t.b.lo > 0 {
			hi := t.b.hi - 1
			if t.a.hi < hi {
				hi = t.a.hi
			}
			return 0, hi
		}
		return full()
	case OpBAnd:
		hi := t.a.hi
		if t.b.hi < hi {
			hi = t.b.hi
		}
		return 0, hi
	case OpBOr, OpBXor:
		h := t.a.hi
		if t.b.hi > h {
			h = t.b.hi
		}
		lo := uint64(0)
		if t.op == OpBOr {
			lo = t.a.lo
			if t.b.lo > lo {
				lo = t.b.lo
			}
		}
		return lo, bitsFor(h) & m
	case OpLShr:
		if t.b.IsConst() && t.b.k < 64 {
			return t.a.lo >> t.b.k, t.a.hi >> t.b.k
		}
		return 0, t.a.hi
	case OpShl:
		if t.b.IsConst() && t.b.k < uint64(t.w) {
			if t.a.hi <= m>>t.b.k {
				return t.a.lo << t.b.k, t.a.hi << t.b.k
			}
		}
		return full()
	case OpExtract:
		lo := int(t.k & 0xff)
		if lo == 0 && t.a.hi <= m {
			return t.a.lo, t.a.hi
		}
		if t.a.hi>>uint(lo) <= m && t.a.hi>>uint(lo) == t.a.lo>>uint(lo) {
			v := t.a.hi >> uint(lo)
			return v, v
		}
		if t.a.hi>>uint(lo) <= m {
			return 0, t.a.hi >> uint(lo)
		}
		return full()
	case OpConcat:
		return t.a.lo<<uint(t.b.w) | t.b.lo&0, (t.a.hi<<uint(t.b.w) | mask(t.b.w)) & m
	}
	return full()
}

// VarR creates a variable with a known unsigned range (the caller must also assume it).
func (c *Ctx) VarR(w int, name string, lo, hi uint64) *Term {
	if c.varRange == nil {
		c.varRange = map[string][2]uint64{}
	}
	c.varRange[name] = [2]uint64{lo, hi}
	return c.Var(w, name)
}

func mask(w int) uint64 {
	if w >= 64 {
		return ^uint64(0)
	}
	return (uint64(1) << uint(w)) - 1
}

func (t *Term) IsConst() bool { return t.op == OpConst }
func (t *Term) IsTrue() bool  { return t.op == OpConst && t.w == 0 && t.k == 1 }
func (t *Term) IsFalse() bool { return t.op == OpConst && t.w == 0 && t.k == 0 }

// signed value of a constant
func (t *Term) SVal() int64 {
	if t.w >= 64 {
		return int64(t.k)
	}
	if t.k&(uint64(1)<<uint(t.w-1)) != 0 {
		return int64(t.k | ^mask(t.w))
	}
	return int64(t.k)
}

func (c *Ctx) Const(w int, v uint64) *Term {
	return c.mk(OpConst, w, nil, nil, nil, v&mask(w), "")
}
func (c *Ctx) Bool(b bool) *Term {
	if b {
		return c.True
	}
	return c.False
}
func (c *Ctx) Var(w int, name string) *Term { return c.mk(OpVar, w, nil, nil, nil, 0, name) }
func (c *Ctx) Fresh(w int, prefix string) *Term {
	c.fresh++
	return c.Var(w, fmt.Sprintf("%s!%d", prefix, c.fresh))
}
func (c *Ctx) App(name string, idx *Term) *Term {
	return c.mk(OpApp, 8, idx, nil, nil, 0, name)
}

func (c *Ctx) Not(a *Term) *Term {
	if a.IsConst() {
		return c.Bool(a.k == 0)
	}
	if a.op == OpNot {
		return a.a
	}
	return c.mk(OpNot, 0, a, nil, nil, 0, "")
}

func (c *Ctx) And(a, b *Term) *Term {
	if a.IsFalse() || b.IsFalse() {
		return c.False
	}
	if a.IsTrue() {
		return b
	}
	if b.IsTrue() {
		return a
	}
	if a == b {
		return a
	}
	if (a.op == OpNot && a.a == b) || (b.op == OpNot && b.a == a) {
		return c.False
	}
	return c.mk(OpAnd, 0, a, b, nil, 0, "")
}

func (c *Ctx) Or(a, b *Term) *Term {
	if a.IsTrue() || b.IsTrue() {
		return c.True
	}
	if a.IsFalse() {
		return b
	}
	if b.IsFalse() {
		return a
	}
	if a == b {
		return a
	}
	if (a.op == OpNot && a.a == b) || (b.op == OpNot && b.a == a) {
		return c.True
	}
	return c.mk(OpOr, 0, a, b, nil, 0, "")
}

func (c *Ctx) Implies(a, b *Term) *Term { return c.Or(c.Not(a), b) }

func (c *Ctx) Eq(a, b *Term) *Term {
	if a.w != b.w {
		panic(fmt.Sprintf("Eq width mismatch %d vs %d", a.w, b.w))
	}
	if a == b {
		return c.True
	}
	if a.IsConst() && b.IsConst() {
		return c.Bool(a.k == b.k)
	}
	if a.w > 0 && (a.hi < b.lo || b.hi < a.lo) {
		return c.False
	}
	if a.w == 64 && !a.IsConst() && !b.IsConst() {
		if lo, hi, ok := c.diffInterval(a, b); ok && (lo > 0 || hi < 0) {
			return c.False
		}
	}
	if a.w == 0 {
		if a.IsTrue() {
			return b
		}
		if b.IsTrue() {
			return a
		}
		if a.IsFalse() {
			return c.Not(b)
		}
		if b.IsFalse() {
			return c.Not(a)
		}
	}
	// zext(x) == const
	if b.IsConst() && a.op == OpZExt {
		if b.k&^mask(a.a.w) != 0 {
			return c.False
		}
		return c.Eq(a.a, c.Const(a.a.w, b.k))
	}
	if a.IsConst() && b.op == OpZExt {
		return c.Eq(b, a)
	}
	// ite(c, k1, k2) == k
	if b.IsConst() && a.op == OpIte && a.b.IsConst() && a.c.IsConst() {
		e1 := a.b.k == b.k
		e2 := a.c.k == b.k
		switch {
		case e1 && e2:
			return c.True
		case e1:
			return a.a
		case e2:
			return c.Not(a.a)
		default:
			return c.False
		}
	}
	if a.IsConst() && b.op == OpIte {
		return c.Eq(b, a)
	}
	// parallel ite chains with the same condition: compare branch-wise
	if a.op == OpIte && b.op == OpIte && a.a == b.a {
		return c.Ite(a.a, c.Eq(a.b, b.b), c.Eq(a.c, b.c))
	}
	if a.id > b.id {
		a, b = b, a
	}
	return c.mk(OpEq, 0, a, b, nil, 0, "")
}

func (c *Ctx) Ite(cond, a, b *Term) *Term {
	if a.w != b.w {
		panic(fmt.Sprintf("Ite width mismatch %d vs %d", a.w, b.w))
	}
	if cond.IsTrue() {
		return a
	}
	if cond.IsFalse() {
		return b
	}
	if a == b {
		return a
	}
	if a.w == 0 {
		if a.IsTrue() && b.IsFalse() {
			return cond
		}
		if a.IsFalse() && b.IsTrue() {
			return c.Not(cond)
		}
		if a.IsTrue() {
			return c.Or(cond, b)
		}
		if a.IsFalse() {
			return c.And(c.Not(cond), b)
		}
		if b.IsTrue() {
			return c.Or(c.Not(cond), a)
		}
		if b.IsFalse() {
			return c.And(cond, a)
		}
	}
	return c.mk(OpIte, a.w, cond, a, b, 0, "")
}

func sext64(v uint64, w int) int64 {
	if w >= 64 {
		return int64(v)
	}
	if v&(uint64(1)<<uint(w-1)) != 0 {
		return int64(v | ^mask(w))
	}
	return int64(v)
}

// Bin builds a binary bit-vector operation with folding.
func (c *Ctx) Bin(op Op, a, b *Term) *Term {
	if a.w != b.w {
		panic(fmt.Sprintf("Bin %v width mismatch %d vs %d", opNames[op], a.w, b.w))
	}
	w := a.w
	if a.IsConst() && b.IsConst() {
		x, y := a.k, b.k
		sx, sy := sext64(x, w), sext64(y, w)
		switch op {
		case OpAdd:
			return c.Const(w, x+y)
		case OpSub:
			return c.Const(w, x-y)
		case OpMul:
			return c.Const(w, x*y)
		case OpUDiv:
			if y == 0 {
				return c.Const(w, mask(w))
			}
			return c.Const(w, x/y)
		case OpURem:
			if y == 0 {
				return c.Const(w, x)
			}
			return c.Const(w, x%y)
		case OpSDiv:
			if y == 0 {
				if sx < 0 {
					return c.Const(w, 1)
				}
				return c.Const(w, mask(w))
			}
			if sy == -1 {
				return c.Const(w, uint64(-sx))
			}
			return c.Const(w, uint64(sx/sy))
		case OpSRem:
			if y == 0 {
				return c.Const(w, x)
			}
			if sy == -1 {
				return c.Const(w, 0)
			}
			return c.Const(w, uint64(sx%sy))
		case OpBAnd:
			return c.Const(w, x&y)
		case OpBOr:
			return c.Const(w, x|y)
		case OpBXor:
			return c.Const(w, x^y)
		case OpShl:
			if y >= uint64(w) {
				return c.Const(w, 0)
			}
			return c.Const(w, x<<y)
		case OpLShr:
			if y >= uint64(w) {
				return c.Const(w, 0)
			}
			return c.Const(w, x>>y)
		case OpAShr:
			if y >= uint64(w) {
				if sx < 0 {
					return c.Const(w, mask(w))
				}
				return c.Const(w, 0)
			}
			return c.Const(w, uint64(sx>>y))
		case OpUlt:
			return c.Bool(x < y)
		case OpUle:
			return c.Bool(x <= y)
		case OpSlt:
			return c.Bool(sx < sy)
		case OpSle:
			return c.Bool(sx <= sy)
		}
	}
	if (op == OpSDiv || op == OpSRem) && a.hi <= mask(w)>>1 && b.hi <= mask(w)>>1 {
		if op == OpSDiv {
			return c.Bin(OpUDiv, a, b)
		}
		return c.Bin(OpURem, a, b)
	}
	if (op == OpUDiv || op == OpURem) && b.IsConst() && b.k != 0 && b.k&(b.k-1) == 0 {
		sh := bits.TrailingZeros64(b.k)
		if op == OpUDiv {
			return c.Bin(OpLShr, a, c.Const(w, uint64(sh)))
		}
		if sh == 0 {
			return c.Const(w, 0)
		}
		return c.ZExt(c.Extract(a, sh-1, 0), w)
	}
	if op == OpAShr && a.hi <= mask(w)>>1 {
		return c.Bin(OpLShr, a, b)
	}
	if w == 64 && (op == OpAdd || op == OpSub) {
		sgn := int64(1)
		if op == OpSub {
			sgn = -1
		}
		return c.fromLin(linAdd(c.linOf(a), c.linOf(b), sgn))
	}
	if w == 64 && (op == OpUlt || op == OpUle) && !(a.IsConst() || b.IsConst()) {
		if lo, hi, ok := c.diffInterval(a, b); ok { // b - a
			if op == OpUlt {
				if lo > 0 {
					return c.True
				}
				if hi <= 0 {
					return c.False
				}
			} else {
				if lo >= 0 {
					return c.True
				}
				if hi < 0 {
					return c.False
				}
			}
		}
	}
	switch op {
	case OpAdd:
		if a.IsConst() && !b.IsConst() {
			a, b = b, a
		}
		if a.IsConst() && a.k == 0 {
			return b
		}
		if b.IsConst() && b.k == 0 {
			return a
		}
		// (x + k1) + k2
		if b.IsConst() && a.op == OpAdd && a.b.IsConst() {
			return c.Bin(OpAdd, a.a, c.Const(w, a.b.k+b.k))
		}
		if a.IsConst() {
			a, b = b, a
		}
		// (x - y) + y
		if a.op == OpSub && a.b == b {
			return a.a
		}
		if b.op == OpSub && b.b == a {
			return b.a
		}
	case OpSub:
		if b.IsConst() && b.k == 0 {
			return a
		}
		if a == b {
			return c.Const(w, 0)
		}
		if b.IsConst() {
			return c.Bin(OpAdd, a, c.Const(w, -b.k))
		}
		// (x + y) - y = x ; (x + y) - x = y
		if a.op == OpAdd {
			if a.b == b {
				return a.a
			}
			if a.a == b {
				return a.b
			}
			// (x + k) - (y + k2) etc: leave
			if b.op == OpAdd && a.b.IsConst() && b.b.IsConst() && a.a == b.a {
				return c.Const(w, a.b.k-b.b.k)
			}
			// (x + k) - x handled; (x+k1) - (x) ok
		}
		if b.op == OpAdd && b.b.IsConst() && b.a == a {
			return c.Const(w, -b.b.k)
		}
	case OpMul:
		if a.IsConst() {
			a, b = b, a
		}
		if b.IsConst() {
			if b.k == 0 {
				return b
			}
			if b.k == 1 {
				return a
			}
		}
	case OpBAnd:
		if a.IsConst() {
			a, b = b, a
		}
		if b.IsConst() {
			if b.k == 0 {
				return b
			}
			if b.k == mask(w) {
				return a
			}
		}
		if a == b {
			return a
		}
	case OpBOr, OpBXor:
		if a.IsConst() {
			a, b = b, a
		}
		if b.IsConst() && b.k == 0 {
			return a
		}
		if op == OpBOr {
			if r := c.orPieces(a, b); r != nil {
				return r
			}
			if r := c.orPieces(b, a); r != nil {
				return r
			}
		}
		if a == b {
			if op == OpBOr {
				return a
			}
			return c.Const(w, 0)
		}
	case OpShl, OpLShr, OpAShr:
		if b.IsConst() && b.k == 0 {
			return a
		}
		if b.IsConst() && b.k >= uint64(w) && op != OpAShr {
			return c.Const(w, 0)
		}
	case OpUlt:
		if a == b {
			return c.False
		}
		if a.hi < b.lo {
			return c.True
		}
		if a.lo >= b.hi {
			return c.False
		}
		if b.IsConst() && b.k == 0 {
			return c.False
		}
		if a.IsConst() && a.k == mask(w) {
			return c.False
		}
		if b.IsConst() && a.op == OpZExt && b.k > mask(a.a.w) {
			return c.True
		}
	case OpUle:
		if a == b {
			return c.True
		}
		if a.hi <= b.lo {
			return c.True
		}
		if a.lo > b.hi {
			return c.False
		}
		if a.IsConst() && a.k == 0 {
			return c.True
		}
		if b.IsConst() && b.k == mask(w) {
			return c.True
		}
		if b.IsConst() && a.op == OpZExt && b.k >= mask(a.a.w) {
			return c.True
		}
	case OpSlt:
		if a == b {
			return c.False
		}
		if sm := mask(w) >> 1; a.hi <= sm && b.hi <= sm {
			return c.Bin(OpUlt, a, b)
		}
	case OpSle:
		if a == b {
			return c.True
		}
		if sm := mask(w) >> 1; a.hi <= sm && b.hi <= sm {
			return c.Bin(OpUle, a, b)
		}
	}
	rw := w
	if op >= OpUlt && op <= OpSle {
		rw = 0
	}
	return c.mk(op, rw, a, b, nil, 0, "")
}

// orPieces recognises  zext(lo) | (zext(hi) << k)  with k = width(lo)  as zext(concat(hi, lo)).
func (c *Ctx) orPieces(lo, hi *Term) *Term {
	if hi.op != OpShl || !hi.b.IsConst() {
		return nil
	}
	k := int(hi.b.k)
	lp, hp := lo, hi.a
	if lp.op == OpZExt {
		lp = lp.a
	}
	if hp.op == OpZExt {
		hp = hp.a
	}
	if lp.w != k || hp.w+k > lo.w {
		return nil
	}
	return c.ZExt(c.Concat(hp, lp), lo.w)
}

func (c *Ctx) BNot(a *Term) *Term {
	if a.IsConst() {
		return c.Const(a.w, ^a.k)
	}
	if a.op == OpBNot {
		return a.a
	}
	return c.mk(OpBNot, a.w, a, nil, nil, 0, "")
}

func (c *Ctx) Neg(a *Term) *Term {
	if a.IsConst() {
		return c.Const(a.w, -a.k)
	}
	return c.mk(OpNeg, a.w, a, nil, nil, 0, "")
}

func (c *Ctx) Extract(a *Term, hi, lo int) *Term {
	w := hi - lo + 1
	if lo == 0 && w == a.w {
		return a
	}
	if a.IsConst() {
		return c.Const(w, a.k>>uint(lo))
	}
	if lo == 0 && (a.op == OpZExt || a.op == OpSExt) {
		if a.a.w == w {
			return a.a
		}
		if a.a.w > w {
			return c.Extract(a.a, hi, 0)
		}
		if a.op == OpZExt {
			return c.ZExt(a.a, w)
		}
		return c.SExt(a.a, w)
	}
	if (a.op == OpLShr || a.op == OpAShr) && a.b.IsConst() && int(a.b.k)+hi < a.w {
		return c.Extract(a.a, hi+int(a.b.k), lo+int(a.b.k))
	}
	if a.op == OpExtract {
		ilo := int(a.k & 0xff)
		return c.Extract(a.a, hi+ilo, lo+ilo)
	}
	if a.op == OpConcat {
		if hi < a.b.w {
			return c.Extract(a.b, hi, lo)
		}
		if lo >= a.b.w {
			return c.Extract(a.a, hi-a.b.w, lo-a.b.w)
		}
	}
	if (a.op == OpZExt) && hi < a.a.w {
		return c.Extract(a.a, hi, lo)
	}
	if a.op == OpZExt && lo >= a.a.w {
		return c.Const(w, 0)
	}
	if lo > 0 && a.hi>>uint(lo) == 0 {
		return c.Const(w, 0)
	}
	return c.mk(OpExtract, w, a, nil, nil, uint64(hi)<<8|uint64(lo), "")
}

func (c *Ctx) ZExt(a *Term, w int) *Term {
	if w == a.w {
		return a
	}
	if w < a.w {
		return c.Extract(a, w-1, 0)
	}
	if a.IsConst() {
		return c.Const(w, a.k)
	}
	if a.op == OpZExt {
		return c.ZExt(a.a, w)
	}
	if a.op == OpExtract && a.k&0xff == 0 && a.a.w == w && a.a.hi <= mask(a.w) {
		return a.a
	}
	return c.mk(OpZExt, w, a, nil, nil, 0, "")
}

func (c *Ctx) SExt(a *Term, w int) *Term {
	if w == a.w {
		return a
	}
	if w < a.w {
		return c.Extract(a, w-1, 0)
	}
	if a.IsConst() {
		return c.Const(w, uint64(sext64(a.k, a.w)))
	}
	if a.op == OpZExt {
		return c.ZExt(a.a, w)
	}
	return c.mk(OpSExt, w, a, nil, nil, 0, "")
}

func (c *Ctx) Concat(hi, lo *Term) *Term {
	if hi.IsConst() && lo.IsConst() {
		return c.Const(hi.w+lo.w, hi.k<<uint(lo.w)|lo.k)
	}
	if hi.IsConst() && hi.k == 0 {
		return c.ZExt(lo, hi.w+lo.w)
	}
	if hi.op == OpExtract && lo.op == OpExtract && hi.a == lo.a && int(hi.k&0xff) == int(lo.k>>8)+1 {
		return c.Extract(hi.a, int(hi.k>>8), int(lo.k&0xff))
	}
	return c.mk(OpConcat, hi.w+lo.w, hi, lo, nil, 0, "")
}

// convenience for 64-bit index arithmetic
func (c *Ctx) I64(v int64) *Term      { return c.Const(64, uint64(v)) }
func (c *Ctx) Add(a, b *Term) *Term   { return c.Bin(OpAdd, a, b) }
func (c *Ctx) Sub(a, b *Term) *Term   { return c.Bin(OpSub, a, b) }
func (c *Ctx) Ult(a, b *Term) *Term   { return c.Bin(OpUlt, a, b) }
func (c *Ctx) Ule(a, b *Term) *Term   { return c.Bin(OpUle, a, b) }
func (c *Ctx) Slt(a, b *Term) *Term   { return c.Bin(OpSlt, a, b) }
func (c *Ctx) Sle(a, b *Term) *Term   { return c.Bin(OpSle, a, b) }
func (c *Ctx) AndN(ts ...*Term) *Term { r := c.True; for _, t := range ts { r = c.And(r, t) }; return r }
func (c *Ctx) OrN(ts ...*Term) *Term  { r := c.False; for _, t := range ts { r = c.Or(r, t) }; return r }

// ---------- printing ----------

func sortName(w int) string {
	if w == 0 {
		return "Bool"
	}
	return fmt.Sprintf("(_ BitVec %d)", w)
}

func constStr(t *Term) string {
	if t.w == 0 {
		if t.k == 1 {
			return "true"
		}
		return "false"
	}
	if t.w%4 == 0 {
		return fmt.Sprintf("#x%0*x", t.w/4, t.k)
	}
	return fmt.Sprintf("#b%0*b", t.w, t.k)
}

func smtName(n string) string { return "|" + n + "|" }

// collectVars appends the (not yet seen) variables / UF names used in t.
func collectVars(t *Term, seen map[uint32]bool, vars *[]*Term) {
	stack := []*Term{t}
	for len(stack) > 0 {
		n := stack[len(stack)-1]
		stack = stack[:len(stack)-1]
		if n == nil || seen[n.id] {
			continue
		}
		seen[n.id] = true
		if n.op == OpVar || n.op == OpApp {
			*vars = append(*vars, n)
		}
		if n.a != nil {
			stack = append(stack, n.a)
		}
		if n.b != nil {
			stack = append(stack, n.b)
		}
		if n.c != nil {
			stack = append(stack, n.c)
		}
	}
}

// Print renders t as SMT-LIB2 with let-bindings for shared sub-terms.
func PrintTerm(t *Term) string {
	// count references
	refs := map[uint32]int{}
	var order []*Term // post-order
	type fr struct {
		n *Term
		s int
	}
	visited := map[uint32]bool{}
	stack := []fr{{t, 0}}
	for len(stack) > 0 {
		f := &stack[len(stack)-1]
		n := f.n
		if f.s == 0 {
			refs[n.id]++
			if visited[n.id] {
				stack = stack[:len(stack)-1]
				continue
			}
			visited[n.id] = true
		}
		var ch *Term
		switch f.s {
		case 0:
			ch = n.a
		case 1:
			ch = n.b
		case 2:
			ch = n.c
		default:
			order = append(order, n)
			stack = stack[:len(stack)-1]
			continue
		}
		f.s++
		if ch != nil {
			stack = append(stack, fr{ch, 0})
		}
	}
	names := map[uint32]string{}
	var sb strings.Builder
	nlets := 0
	var render func(n *Term) string
	render = func(n *Term) string {
		if s, ok := names[n.id]; ok {
			return s
		}
		switch n.op {
		case OpConst:
			return constStr(n)
		case OpVar:
			return smtName(n.name)
		case OpApp:
			return "(" + smtName(n.name) + " " + render(n.a) + ")"
		case OpExtract:
			return fmt.Sprintf("((_ extract %d %d) %s)", n.k>>8, n.k&0xff, render(n.a))
		case OpZExt:
			return fmt.Sprintf("((_ zero_extend %d) %s)", n.w-n.a.w, render(n.a))
		case OpSExt:
			return fmt.Sprintf("((_ sign_extend %d) %s)", n.w-n.a.w, render(n.a))
		}
		s := "(" + opNames[n.op] + " " + render(n.a)
		if n.b != nil {
			s += " " + render(n.b)
		}
		if n.c != nil {
			s += " " + render(n.c)
		}
		return s + ")"
	}
	for _, n := range order {
		if n == t {
			break
		}
		if refs[n.id] > 1 && n.op != OpConst && n.op != OpVar {
			s := render(n)
			nm := fmt.Sprintf("?l%d", n.id)
			sb.WriteString("(let ((" + nm + " " + s + ")) ")
			names[n.id] = nm
			nlets++
		}
	}
	sb.WriteString(render(t))
	for i := 0; i < nlets; i++ {
		sb.WriteByte(')')
	}
	return sb.String()
}

func (t *Term) String() string { return PrintTerm(t) }

var _ = bits.Len

// RangeConstraint states a variable's declared range to the solver (built without the
// range-based folding, which would otherwise reduce it to true).
func (c *Ctx) RangeConstraint(t *Term) *Term {
	r := c.True
	if t.lo > 0 {
		r = c.And(r, c.mk(OpUle, 0, c.Const(t.w, t.lo), t, nil, 0, ""))
	}
	if t.hi < mask(t.w) {
		r = c.And(r, c.mk(OpUle, 0, t, c.Const(t.w, t.hi), nil, 0, ""))
	}
	return r
}
