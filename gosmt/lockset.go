package main

import "fmt"

type heldLock struct {
	m     *MutexState
	write bool
}

// access implements an Eraser-style lockset discipline (opt-in per harness).
func (ex *Exec) access(o *Object, write bool) {
	if !ex.cfg.Lockset || ex.noTrack || o == nil || ex.cur == nil {
		return
	}
	th := ex.cur
	if o.firstThr == -1 {
		o.firstThr = th.id
		return
	}
	if !o.shared && o.firstThr == th.id {
		return
	}
	cur := map[string]bool{}
	for _, h := range th.held {
		if write && !h.write {
			continue
		}
		cur[h.m.key] = true
	}
	if !o.shared {
		o.shared = true
		o.lockKeys = cur
	} else {
		for k := range o.lockKeys {
			if !cur[k] {
				delete(o.lockKeys, k)
			}
		}
	}
	if write {
		o.written = true
	}
	if o.written && len(o.lockKeys) == 0 {
		key := fmt.Sprintf("%d", o.id)
		if !ex.lockViol[key] {
			ex.lockViol[key] = true
			lbl := o.label
			if lbl == "" && o.typ != nil {
				lbl = o.typ.String()
			}
			ex.violationHere("race", fmt.Sprintf("lockset violation: object %s (%s) accessed by several goroutines with no common lock (write=%v)", o, lbl, write))
		}
	}
}
