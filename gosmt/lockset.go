package main

import (
	"fmt"
	"strings"

	"golang.org/x/tools/go/ssa"
)

type heldLock struct {
	m     *MutexState
	write bool
}

// per (object, field) lockset state
type lockCell struct {
	firstThr int
	shared   bool
	written  bool
	keys     map[string]bool
}

// access implements an Eraser-style lockset discipline (opt-in per harness), at the
// granularity of (object, first path element): struct fields and array elements are
// tracked separately. Objects allocated by harness code are exempt.
func (ex *Exec) access(o *Object, write bool) { ex.accessField(o, -1, write) }

func (ex *Exec) accessField(o *Object, field int, write bool) {
	if !ex.cfg.Lockset || ex.noTrack || o == nil || ex.cur == nil || o.exempt {
		return
	}
	th := ex.cur
	// accesses made directly by harness code (inspecting the state after the threads have
	// finished) are not part of the code under test
	if len(th.frames) > 0 {
		fn := th.frames[len(th.frames)-1].fn
		h, ok := ex.harnessFn[fn]
		if !ok {
			h = ex.isHarnessFn(fn)
			ex.harnessFn[fn] = h
		}
		if h {
			return
		}
	}
	if o.cells == nil {
		o.cells = map[int]*lockCell{}
	}
	cell := o.cells[field]
	if cell == nil {
		o.cells[field] = &lockCell{firstThr: th.id}
		return
	}
	if !cell.shared && cell.firstThr == th.id {
		return
	}
	cur := map[string]bool{}
	for _, h := range th.held {
		if write && !h.write {
			continue
		}
		cur[h.m.key] = true
	}
	if !cell.shared {
		cell.shared = true
		cell.keys = cur
	} else {
		for k := range cell.keys {
			if !cur[k] {
				delete(cell.keys, k)
			}
		}
	}
	if write {
		cell.written = true
	}
	if cell.written && len(cell.keys) == 0 {
		key := fmt.Sprintf("%d/%d", o.id, field)
		if !ex.lockViol[key] {
			ex.lockViol[key] = true
			lbl := o.label
			if lbl == "" && o.typ != nil {
				lbl = o.typ.String()
			}
			ex.violationHere("race", fmt.Sprintf("lockset violation: %s (%s) field/element %d accessed by several goroutines with no common lock (write=%v)", o, lbl, field, write))
		}
	}
}

// isHarnessFn: is the function (or the function enclosing the closure) defined in a harness file?
func (ex *Exec) isHarnessFn(fn *ssa.Function) bool {
	for f := fn; f != nil; f = f.Parent() {
		if f.Pos().IsValid() {
			return strings.Contains(ex.P.fset.Position(f.Pos()).Filename, "zz_verif_")
		}
	}
	return false
}
