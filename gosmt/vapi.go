package main

import (
	"encoding/hex"
	"fmt"
)

func (ex *Exec) tagName(tag string) string {
	n := ex.tagCount[tag]
	ex.tagCount[tag] = n + 1
	return fmt.Sprintf("%s#%d", tag, n)
}

func (ex *Exec) strArg(v Value) string {
	s, ok := v.(*StrVal).concrete()
	if !ok {
		panic(ex.unsupported("v* tag/message must be a constant string"))
	}
	return s
}

func (ex *Exec) intArg(v Value) int64 {
	t := v.(*Term)
	if !t.IsConst() {
		panic(ex.unsupported("v* bound must be constant"))
	}
	return t.SVal()
}

// vcall implements the harness API.
func (ex *Exec) vcall(th *Thread, caller *Frame, name string, args []Value, finish func(Value)) {
	c := ex.ctx
	scalar := func(w int, kind string) {
		tag := ex.tagName(ex.strArg(args[0]))
		t := c.Var(w, "in!"+tag)
		ex.inputs = append(ex.inputs, &InputVar{Tag: tag, Kind: kind, Term: t})
		finish(t)
	}
	switch name {
	case "vBool":
		scalar(0, "bool")
	case "vU8":
		scalar(8, "u8")
	case "vU16":
		scalar(16, "u16")
	case "vU32":
		scalar(32, "u32")
	case "vU64":
		scalar(64, "u64")
	case "vInt":
		tag := ex.tagName(ex.strArg(args[0]))
		lo, hi := ex.intArg(args[1]), ex.intArg(args[2])
		var t *Term
		if lo >= 0 {
			t = c.VarR(64, "in!"+tag, uint64(lo), uint64(hi))
		} else {
			t = c.Var(64, "in!"+tag)
		}
		ex.inputs = append(ex.inputs, &InputVar{Tag: tag, Kind: "int", Term: t})
		if lo >= 0 {
			ex.assume(c.RangeConstraint(t))
		} else {
			ex.assume(c.And(c.Sle(c.I64(lo), t), c.Sle(t, c.I64(hi))))
		}
		finish(t)
	case "vLen", "vChoice":
		tag := ex.tagName(ex.strArg(args[0]))
		var lo, hi int64
		if name == "vLen" {
			lo, hi = ex.intArg(args[1]), ex.intArg(args[2])
		} else {
			lo, hi = 0, ex.intArg(args[1])-1
		}
		d := ex.decide(int(hi-lo+1), name+":"+tag, nil)
		ex.inputs = append(ex.inputs, &InputVar{Tag: tag, Kind: "choice", Value: int(lo) + d})
		finish(c.I64(lo + int64(d)))
	case "vFail":
		tag := ex.tagName(ex.strArg(args[0]))
		d := 0
		if ex.faults < ex.cfg.MaxFaults {
			d = ex.decide(2, "vFail:"+tag, nil)
		}
		if d == 1 {
			ex.faults++
		}
		ex.inputs = append(ex.inputs, &InputVar{Tag: tag, Kind: "choice", Value: d})
		finish(c.Bool(d == 1))
	case "vBytes", "vString":
		tag := ex.tagName(ex.strArg(args[0]))
		max := ex.intArg(args[1])
		ln := c.VarR(64, "len!"+tag, 0, uint64(max))
		ex.assume(c.RangeConstraint(ln))
		nm := "mem!" + tag
		iv := &InputVar{Tag: tag, Kind: "bytes", Len: ln, Name: nm, Max: int(max)}
		ex.inputs = append(ex.inputs, iv)
		if name == "vString" {
			iv.Kind = "string"
			finish(&StrVal{seq: symSeq{nm}, len: ln, maxLen: int(max)})
			return
		}
		o := ex.newByteObject(ln, symSeq{nm})
		ex.maxOf[o] = int(max)
		finish(&SliceVal{o, c.I64(0), ln, ln})
	case "vAssume":
		t := args[0].(*Term)
		if t.IsFalse() {
			panic(pathEnd{"infeasible", "assume false"})
		}
		if !t.IsTrue() {
			if ex.feasible(t) == Unsat {
				panic(pathEnd{"infeasible", "assumption unsatisfiable"})
			}
			ex.assume(t)
		}
		finish(nil)
	case "vAssert":
		if t := args[0].(*Term); t.IsTrue() {
			// decided by the path itself (all inputs of this path satisfy it)
			ex.obligations++
			ex.discharged++
		} else {
			ex.require(t, "assert", ex.strArg(args[1]))
		}
		finish(nil)
	case "vAssertEqBytes", "vAssertEqString":
		sa, la := ex.byteSeqOf(args[0])
		sb, lb := ex.byteSeqOf(args[1])
		msg := ex.strArg(args[2])
		k := c.Fresh(64, "sk")
		eq := c.And(c.Eq(la, lb), c.Or(c.Not(c.Ult(k, la)), c.Eq(sa.At(ex, k), sb.At(ex, k))))
		ex.require(eq, "assert", msg)
		finish(nil)
	case "vNoAlias":
		a, b := args[0].(*SliceVal), args[1].(*SliceVal)
		if a.obj == nil || b.obj == nil || a.obj != b.obj {
			finish(c.True)
			return
		}
		// same object: ranges must be disjoint (or one empty)
		aEnd, bEnd := c.Add(a.off, a.len), c.Add(b.off, b.len)
		dis := c.OrN(c.Eq(a.len, c.I64(0)), c.Eq(b.len, c.I64(0)), c.Ule(aEnd, b.off), c.Ule(bEnd, a.off))
		finish(dis)
	case "vAnd":
		finish(c.And(args[0].(*Term), args[1].(*Term)))
	case "vOr":
		finish(c.Or(args[0].(*Term), args[1].(*Term)))
	case "vIteInt":
		finish(c.Ite(args[0].(*Term), args[1].(*Term), args[2].(*Term)))
	case "vAt": // byte at index i, 0 beyond the end; no bounds obligation
		s := args[0].(*StrVal)
		i := ex.toIdx(args[1].(*Term))
		finish(c.Ite(c.Ult(i, s.len), s.seq.At(ex, i), c.Const(8, 0)))
	case "vParam":
		name := ex.strArg(args[0])
		def := ex.intArg(args[1])
		if v, ok := ex.cfg.Params[name]; ok {
			def = int64(v)
		}
		finish(c.I64(def))
	case "vCover":
		ex.covers[ex.strArg(args[0])] = true
		finish(nil)
	case "vKnownFinding":
		// reached on a feasible path: reported by the check driver against known_findings.json
		id := ex.strArg(args[0])
		if !ex.covers["KF:"+id] {
			ex.covers["KF:"+id] = true
			ex.kfWitness = append(ex.kfWitness, id)
			if _, claimed := ex.P.kfClaim.LoadOrStore(ex.entry.Name()+"|"+id, true); !claimed {
				if ex.kfModels == nil {
					ex.kfModels = map[string]map[string]interface{}{}
				}
				ex.kfModels[id] = ex.model(ex.ctx.True)
			}
		}
		finish(nil)
	case "vObserve":
		finish(nil)
	case "vEvent":
		ex.events = append(ex.events, ex.strArg(args[0]))
		finish(nil)
	case "vQuiesce":
		// block until every other thread is blocked or done
		if th.quiesced {
			th.quiesced = false
			finish(nil)
			return
		}
		th.quiescing = true
		th.quiesced = true
		th.state = Blocked
		ex.cur = nil
	case "vYield":
		finish(nil)
		ex.schedPoint(th)
	case "vFireTimers":
		fired := ex.fireTimer()
		finish(c.Bool(fired))
	case "vLive":
		n := 0
		for _, t := range ex.threads {
			if t != th && t.state != Done {
				n++
			}
		}
		finish(c.I64(int64(n)))
	case "vLiveRunnable":
		finish(c.I64(int64(len(ex.enabledThreads()))))
	case "vSymbolic":
		finish(c.True)
	case "vConcreteBytes": // is the length of this slice concrete?
		finish(c.Bool(args[0].(*SliceVal).len.IsConst()))
	default:
		panic(ex.unsupported("unknown harness API function " + name))
	}
}

// ---------- violations & models ----------

func (ex *Exec) recordViolation(neg *Term, kind, msg string) {
	v := &Violation{Kind: kind, Msg: msg, Where: ex.where(), Harness: ex.entry.Name(), Threaded: ex.threadedPath}
	for _, d := range ex.trace {
		v.Decisions = append(v.Decisions, d.Choice)
	}
	n := len(ex.events)
	if n > 40 {
		n = 40
	}
	v.Trace = append(v.Trace, ex.events[len(ex.events)-n:]...)
	v.Inputs = ex.model(neg)
	ex.violations = append(ex.violations, v)
}

// model solves pc ∧ extra and returns the input assignment (lengths minimised greedily).
func (ex *Exec) model(extra *Term) map[string]interface{} {
	ex.flush()
	s := ex.solver
	s.Push()
	defer s.Pop()
	s.Assert(extra)
	if s.Check() != Sat {
		return map[string]interface{}{"_error": "model query not sat"}
	}
	c := ex.ctx
	// greedy minimisation of lengths
	for _, in := range ex.inputs {
		if in.Len == nil {
			continue
		}
		for _, k := range []int64{0, 1, 2, 3, 4, 6, 8, 12, 16, 32, 64, 256, 4096} {
			if k >= int64(in.Max) {
				break
			}
			bound := c.Ule(in.Len, c.I64(k))
			s.Push()
			s.Assert(bound)
			r := s.Check()
			s.Pop()
			if r == Sat {
				s.Assert(bound)
				break
			}
		}
	}
	if s.Check() != Sat {
		return map[string]interface{}{"_error": "model query not sat after minimisation"}
	}
	out := map[string]interface{}{}
	for _, in := range ex.inputs {
		switch in.Kind {
		case "choice":
			out[in.Tag] = in.Value
		case "bytes", "string":
			ln := s.GetValues([]*Term{in.Len})[0]
			if ln > 1<<16 {
				out[in.Tag] = map[string]interface{}{"len": ln, "hex": ""}
				continue
			}
			idx := make([]*Term, ln)
			for i := range idx {
				idx[i] = c.App(in.Name, c.I64(int64(i)))
			}
			vals := s.GetValues(idx)
			b := make([]byte, ln)
			for i, v := range vals {
				b[i] = byte(v)
			}
			out[in.Tag] = map[string]interface{}{"len": ln, "hex": hex.EncodeToString(b)}
		default:
			out[in.Tag] = s.GetValues([]*Term{in.Term})[0]
		}
	}
	return out
}
