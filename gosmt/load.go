package main

import (
	"fmt"
	"go/token"
	"os"
	"path/filepath"
	"sort"
	"strings"

	"golang.org/x/tools/go/packages"
	"golang.org/x/tools/go/ssa"
	"golang.org/x/tools/go/ssa/ssautil"
)

const modPath = "github.com/256dpi/gomqtt"

func repoDir() string {
	if d := os.Getenv("VERIF_REPO"); d != "" {
		return d
	}
	return "/repo"
}

func verifDir() string {
	if d := os.Getenv("VERIF_DIR"); d != "" {
		return d
	}
	return "/verif"
}

// harnessOverlay builds the overlay for symbolic mode: every /verif/harness/<pkg>/*.go
// (not *_replay.go, not *_test.go) appears as <repo>/<pkg>/zz_verif_<file>, plus the API file.
func harnessOverlay(replay bool) (map[string][]byte, []string, error) {
	ov := map[string][]byte{}
	hdir := filepath.Join(verifDir(), "harness")
	apiName := "api_sym.go.tmpl"
	if replay {
		apiName = "api_replay.go.tmpl"
	}
	api, err := os.ReadFile(filepath.Join(hdir, apiName))
	if err != nil {
		return nil, nil, err
	}
	var pkgs []string
	err = filepath.Walk(hdir, func(p string, info os.FileInfo, err error) error {
		if err != nil || info.IsDir() || !strings.HasSuffix(p, ".go") {
			return err
		}
		rel, _ := filepath.Rel(hdir, p)
		dir := filepath.Dir(rel)
		base := filepath.Base(rel)
		if dir == "." {
			return nil
		}
		if strings.HasSuffix(base, "_test.go") && !replay {
			return nil
		}
		src, err := os.ReadFile(p)
		if err != nil {
			return err
		}
		ov[filepath.Join(repoDir(), dir, "zz_verif_"+base)] = src
		found := false
		for _, q := range pkgs {
			if q == dir {
				found = true
			}
		}
		if !found {
			pkgs = append(pkgs, dir)
		}
		return nil
	})
	if err != nil {
		return nil, nil, err
	}
	for _, dir := range pkgs {
		pkgName := filepath.Base(dir)
		// package name from an existing harness file
		for path, src := range ov {
			if filepath.Dir(path) == filepath.Join(repoDir(), dir) {
				for _, line := range strings.Split(string(src), "\n") {
					if strings.HasPrefix(line, "package ") {
						pkgName = strings.TrimSpace(strings.TrimPrefix(line, "package "))
						break
					}
				}
				break
			}
		}
		ov[filepath.Join(repoDir(), dir, "zz_verif_api.go")] = []byte(strings.Replace(string(api), "package PKG", "package "+pkgName, 1))
	}
	sort.Strings(pkgs)
	return ov, pkgs, nil
}

func LoadProgram(pkgDirs []string) (*Program, error) {
	ov, all, err := harnessOverlay(false)
	if err != nil {
		return nil, err
	}
	if len(pkgDirs) == 0 {
		pkgDirs = all
	}
	fset := token.NewFileSet()
	cfg := &packages.Config{
		Mode:       packages.LoadAllSyntax,
		Dir:        repoDir(),
		Fset:       fset,
		BuildFlags: []string{"-tags=verif", "-mod=mod"},
		Overlay:    ov,
		Env:        append(os.Environ(), "GOFLAGS=-mod=mod", "GOPROXY=off", "GOSUMDB=off", "GOTOOLCHAIN=local"),
	}
	var patterns []string
	for _, d := range pkgDirs {
		patterns = append(patterns, "./"+d)
	}
	initial, err := packages.Load(cfg, patterns...)
	if err != nil {
		return nil, err
	}
	var errs []string
	packages.Visit(initial, nil, func(p *packages.Package) {
		for _, e := range p.Errors {
			errs = append(errs, e.Error())
		}
	})
	if len(errs) > 0 {
		if len(errs) > 10 {
			errs = errs[:10]
		}
		return nil, fmt.Errorf("load errors:\n%s", strings.Join(errs, "\n"))
	}
	prog, _ := ssautil.AllPackages(initial, ssa.InstantiateGenerics)
	prog.Build()
	P := &Program{prog: prog, pkgs: map[string]*ssa.Package{}, infos: map[*ssa.Function]*fnInfo{}, fset: fset, execInit: map[*ssa.Package]bool{}}
	for _, p := range prog.AllPackages() {
		P.pkgs[p.Pkg.Path()] = p
	}
	// packages whose init runs for real
	runInit := func(path string) bool {
		return strings.HasPrefix(path, modPath) || path == "gopkg.in/tomb.v2" || path == "github.com/256dpi/mercury"
	}
	// dependency order: DFS over imports
	seen := map[string]bool{}
	var visit func(p *ssa.Package)
	visit = func(p *ssa.Package) {
		if seen[p.Pkg.Path()] {
			return
		}
		seen[p.Pkg.Path()] = true
		for _, imp := range p.Pkg.Imports() {
			if ip := P.pkgs[imp.Path()]; ip != nil {
				visit(ip)
			}
		}
		if runInit(p.Pkg.Path()) {
			P.initPkgs = append(P.initPkgs, p)
			P.execInit[p] = true
		}
	}
	var roots []*ssa.Package
	for _, ip := range initial {
		if sp := P.pkgs[ip.PkgPath]; sp != nil {
			roots = append(roots, sp)
		}
	}
	for _, r := range roots {
		visit(r)
	}
	return P, nil
}

func (P *Program) findEntry(pkg, name string) *ssa.Function {
	p := P.pkgs[modPath+"/"+pkg]
	if p == nil {
		return nil
	}
	return p.Func(name)
}
