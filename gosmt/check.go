package main

import (
	"encoding/json"
	"flag"
	"fmt"
	"os"
	"os/exec"
	"path/filepath"
	"runtime"
	"sort"
	"strings"
	"time"
)

// ---------- check registry ----------

type CheckSpec struct {
	Quick    []*HarnessCfg `json:"quick"`
	Thorough []*HarnessCfg `json:"thorough"`
	Assumptions []string   `json:"assumptions"`
	Bounds   map[string]string `json:"bounds"`
}

type KnownFinding struct {
	ID       string `json:"id"`
	Property string `json:"property"`
	Harness  string `json:"harness"`
	Kind     string `json:"kind"`
	Msg      string `json:"msg"`      // exact assertion message
	Where    string `json:"where"`    // substring of the call-site chain ("" = any)
	Text     string `json:"text"`
	Status   string `json:"status"`   // "open" or "fixed: <commit>"
}

type replayOutcome struct {
	File      string
	Ran       bool
	Violated  bool
	Line      string
	Output    string
}

func loadChecks() (map[string]*CheckSpec, error) {
	b, err := os.ReadFile(filepath.Join(verifDir(), "checks", "checks.json"))
	if err != nil {
		return nil, err
	}
	m := map[string]*CheckSpec{}
	if err := json.Unmarshal(b, &m); err != nil {
		return nil, err
	}
	return m, nil
}

func loadKnown() []KnownFinding {
	b, err := os.ReadFile(filepath.Join(verifDir(), "known_findings.json"))
	if err != nil {
		return nil
	}
	var l struct {
		Findings []KnownFinding `json:"findings"`
	}
	json.Unmarshal(b, &l)
	return l.Findings
}

func cmdCheck(args []string) int {
	if len(args) < 1 {
		usage()
	}
	id := args[0]
	fs := flag.NewFlagSet("check", flag.ExitOnError)
	tier := fs.String("tier", "quick", "quick|thorough")
	workers := fs.Int("workers", runtime.NumCPU(), "workers")
	only := fs.String("only", "", "run only this harness entry")
	noReplay := fs.Bool("noreplay", false, "skip native replay")
	fs.Parse(args[1:])
	if t := os.Getenv("VERIF_TIER"); t != "" && !flagSet(fs, "tier") {
		*tier = t
	}
	seed := 0
	fmt.Sscan(os.Getenv("VERIF_SEED"), &seed)
	start := time.Now()

	checks, err := loadChecks()
	if err != nil {
		fmt.Println("INCONCLUSIVE property=" + id + " reason=cannot load checks.json: " + err.Error())
		return 2
	}
	spec := checks[id]
	if spec == nil {
		fmt.Println("INCONCLUSIVE property=" + id + " reason=no such check")
		return 2
	}
	hs := spec.Quick
	if *tier == "thorough" && len(spec.Thorough) > 0 {
		hs = spec.Thorough
	}
	pkgSet := map[string]bool{}
	for _, h := range hs {
		pkgSet[h.Pkg] = true
	}
	var pkgs []string
	for p := range pkgSet {
		pkgs = append(pkgs, p)
	}
	sort.Strings(pkgs)
	P, err := LoadProgram(pkgs)
	if err != nil {
		fmt.Printf("INCONCLUSIVE property=%s reason=cannot load/compile /repo with harnesses: %v\n", id, err)
		writeEvidence(id, *tier, seed, nil, nil, 0, 0, []string{"load failure: " + err.Error()}, spec, time.Since(start))
		return 2
	}
	known := loadKnown()
	var results []*RunResult
	var inconclusive []string
	violations := 0
	replaysOK := 0
	exit := 0
	var crossNotes []string
	for _, h := range hs {
		if *only != "" && h.Entry != *only {
			continue
		}
		cfg := *h
		if cfg.TimeoutS == 0 { // never run away: an unfinished harness is INCONCLUSIVE, not a hang
			cfg.TimeoutS = 1800
			if *tier == "thorough" {
				cfg.TimeoutS = 5400
			}
		}
		primary := "cvc5-int"
		if h.Solver != "" {
			primary = h.Solver
		}
		res := Explore(P, &cfg, *workers, primary, 60000)
		results = append(results, res)
		fmt.Printf("[%s] %s.%s paths=%d infeasible=%d obligations=%d/%d queries=%d solver=%.1fs wall=%.1fs\n", id, h.Pkg, h.Entry, res.Paths, res.Infeasible, res.Discharged, res.Obligations, res.Queries, res.SolverTime.Seconds(), res.Wall.Seconds())
		for _, s := range res.Inconclusive {
			inconclusive = append(inconclusive, h.Entry+": "+s)
		}
		// cross-check with the other solvers (thorough tier)
		if *tier == "thorough" && os.Getenv("VERIF_NOCROSS") == "" && len(res.Inconclusive) == 0 {
			for _, sk := range []string{"z3-new", "z3", "cvc5-int"} {
				if sk == primary || (sk == "cvc5-int" && primary != "z3-new") {
					continue
				}
				if h.CrossSkip != "" && strings.Contains(h.CrossSkip, sk) {
					continue
				}
				cfg2 := *h
				// a cross-check never overrules the primary; it gets a bounded amount of time
				cfg2.TimeoutS = int(4*res.Wall.Seconds()) + 120
				if cfg2.TimeoutS > 900 {
					cfg2.TimeoutS = 900
				}
				r2 := Explore(P, &cfg2, *workers, sk, 120000)
				note := fmt.Sprintf("%s cross-check %s: paths %d/%d obligations %d/%d violations %d/%d", h.Entry, sk, r2.Paths, res.Paths, r2.Discharged, res.Discharged, len(r2.Violations), len(res.Violations))
				crossNotes = append(crossNotes, note)
				fmt.Println("  " + note)
				if len(r2.Inconclusive) > 0 {
					crossNotes = append(crossNotes, fmt.Sprintf("%s cross-check %s inconclusive (%s): primary verdict kept", h.Entry, sk, r2.Inconclusive[0]))
				} else if r2.Paths != res.Paths || r2.Discharged != res.Discharged || len(r2.Violations) != len(res.Violations) {
					inconclusive = append(inconclusive, "solver disagreement: "+note)
				}
			}
		}
		// path witnesses: validate the translation natively on sampled paths
		if !*noReplay && len(res.Witnesses) > 0 {
			n := replayWitnesses(id, h, res)
			if n < 0 {
				inconclusive = append(inconclusive, h.Entry+": translator validation failed: a path witness did not behave natively as predicted")
			} else {
				replaysOK += n
			}
		}
		// known findings reached through vKnownFinding(id): must be listed as open
		var kfIDs []string
		for l := range res.Covers {
			if strings.HasPrefix(l, "KF:") {
				kfIDs = append(kfIDs, strings.TrimPrefix(l, "KF:"))
			}
		}
		sort.Strings(kfIDs)
		for _, kid := range kfIDs {
			var kf *KnownFinding
			for i := range known {
				if known[i].ID == kid && known[i].Property == id && known[i].Status == "open" {
					kf = &known[i]
				}
			}
			if kf != nil {
				fmt.Printf("KNOWN-FINDING: property=%s %s [%s, %d paths]\n", id, kf.Text, kid, res.Covers["KF:"+kid])
				continue
			}
			v := &Violation{Kind: "known-finding-regressed", Msg: "behaviour of finding " + kid + " (not listed as open) is present", Harness: h.Entry, Inputs: res.KFModels[kid]}
			rf := writeReplay(id, h, v, 900)
			violations++
			fmt.Printf("  violation: finding %s is not listed as open in known_findings.json but its behaviour is reachable\n", kid)
			fmt.Printf("VIOLATION property=%s replay=%s\n", id, rf)
			exit = 1
		}
		for i, v := range res.Violations {
			if _, noModel := v.Inputs["_error"]; noModel {
				// the solver produced no input for this path (its condition was not shown
				// satisfiable): there is no counterexample to report, only an undecided path
				inconclusive = append(inconclusive, fmt.Sprintf("%s: '%s' reached on a path without a model (path condition undecided)", h.Entry, v.Msg))
				continue
			}
			kf := matchKnown(known, id, v)
			rf := writeReplay(id, h, v, i)
			if kf != nil {
				fmt.Printf("KNOWN-FINDING: property=%s %s [%s: %s]\n", id, kf.Text, v.Harness, v.Msg)
				continue
			}
			confirmed := "skipped"
			if !*noReplay {
				out := nativeReplay(h, rf, v)
				switch {
				case out.Violated:
					confirmed = "reproduced"
					replaysOK++
				case v.Threaded:
					confirmed = "schedule-dependent (not reproduced natively in this run)"
				default:
					confirmed = "NOT reproduced"
				}
			}
			fmt.Printf("  violation [%s] %s\n    at %s\n    native replay: %s\n", v.Kind, v.Msg, v.Where, confirmed)
			if confirmed == "NOT reproduced" {
				inconclusive = append(inconclusive, fmt.Sprintf("%s: counterexample for '%s' did not reproduce natively (replay=%s)", h.Entry, v.Msg, rf))
				continue
			}
			violations++
			fmt.Printf("VIOLATION property=%s replay=%s\n", id, rf)
			exit = 1
		}
	}
	if exit == 0 && len(inconclusive) > 0 {
		exit = 2
	}
	for _, s := range inconclusive {
		fmt.Printf("INCONCLUSIVE property=%s reason=%s\n", id, s)
	}
	writeEvidence(id, *tier, seed, results, crossNotes, violations, replaysOK, inconclusive, spec, time.Since(start))
	if exit == 0 {
		fmt.Printf("OK property=%s tier=%s wall=%.1fs\n", id, *tier, time.Since(start).Seconds())
	}
	return exit
}

func flagSet(fs *flag.FlagSet, name string) bool {
	found := false
	fs.Visit(func(f *flag.Flag) {
		if f.Name == name {
			found = true
		}
	})
	return found
}

func matchKnown(known []KnownFinding, id string, v *Violation) *KnownFinding {
	for i := range known {
		k := &known[i]
		if k.Property != id || k.Status != "open" {
			continue
		}
		if k.Msg == "" {
			continue // identified by a harness predicate (vKnownFinding), never by "any violation"
		}
		if k.Harness != "" && k.Harness != v.Harness {
			continue
		}
		if k.Kind != "" && k.Kind != v.Kind {
			continue
		}
		if k.Msg != "" && k.Msg != v.Msg {
			continue
		}
		if k.Where != "" && !strings.Contains(v.Where, k.Where) {
			continue
		}
		return k
	}
	return nil
}

// ---------- replay ----------

func writeReplay(id string, h *HarnessCfg, v *Violation, n int) string {
	dir := filepath.Join(verifDir(), "replays", id)
	os.MkdirAll(dir, 0o755)
	f := filepath.Join(dir, fmt.Sprintf("%s-%d.json", h.Entry, n))
	doc := map[string]interface{}{
		"property": id, "pkg": h.Pkg, "harness": h.Entry, "kind": v.Kind, "msg": v.Msg, "where": v.Where,
		"inputs": v.Inputs, "decisions": v.Decisions, "trace": v.Trace, "threaded": v.Threaded, "params": h.Params,
	}
	b, _ := json.MarshalIndent(doc, "", " ")
	os.WriteFile(f, b, 0o644)
	return f
}

// buildReplayOverlay writes an overlay file for `go test` of package pkg.
func buildReplayOverlay(tmp, pkg, entry string) (string, error) {
	ov, _, err := harnessOverlay(true)
	if err != nil {
		return "", err
	}
	repl := map[string]string{}
	prefix := filepath.Join(repoDir(), pkg) + string(filepath.Separator)
	pkgName := ""
	i := 0
	for path, src := range ov {
		real := filepath.Join(tmp, fmt.Sprintf("f%d_%s", i, filepath.Base(path)))
		i++
		if err := os.WriteFile(real, src, 0o644); err != nil {
			return "", err
		}
		repl[path] = real
		if !strings.HasPrefix(path, prefix) || strings.Contains(path[len(prefix):], string(filepath.Separator)) {
			continue // harness file of another package (kept in the overlay: harnesses may import it)
		}
		for _, line := range strings.Split(string(src), "\n") {
			if strings.HasPrefix(line, "package ") {
				pkgName = strings.TrimSpace(strings.TrimPrefix(line, "package "))
				break
			}
		}
	}
	// the repository's own test files are not part of a replay: they are replaced by their bare
	// package clause (transport's test init loads a git-ignored certificate and would panic
	// before the replay starts)
	if ents, err := os.ReadDir(filepath.Join(repoDir(), pkg)); err == nil {
		for _, e := range ents {
			name := e.Name()
			if e.IsDir() || !strings.HasSuffix(name, "_test.go") || strings.HasPrefix(name, "zz_verif_") {
				continue
			}
			src, err := os.ReadFile(filepath.Join(repoDir(), pkg, name))
			if err != nil {
				continue
			}
			clause := ""
			for _, line := range strings.Split(string(src), "\n") {
				if strings.HasPrefix(line, "package ") {
					clause = strings.TrimSpace(line)
					break
				}
			}
			if clause == "" {
				continue
			}
			real := filepath.Join(tmp, fmt.Sprintf("t%d_%s", i, name))
			i++
			os.WriteFile(real, []byte(clause+"\n"), 0o644)
			repl[filepath.Join(repoDir(), pkg, name)] = real
		}
	}
	test := fmt.Sprintf("//go:build verif && verifreplay\n\npackage %s\n\nimport \"testing\"\n\nfunc TestVerifReplay(t *testing.T) { vReplayRun(t, %s) }\n", pkgName, entry)
	tf := filepath.Join(tmp, "replay_test.go")
	os.WriteFile(tf, []byte(test), 0o644)
	repl[filepath.Join(repoDir(), pkg, "zz_verif_replay_test.go")] = tf
	b, _ := json.Marshal(map[string]interface{}{"Replace": repl})
	of := filepath.Join(tmp, "overlay.json")
	return of, os.WriteFile(of, b, 0o644)
}

func runGoTest(tmp, pkg, entry, replayFiles string, timeout time.Duration) (string, error) {
	of, err := buildReplayOverlay(tmp, pkg, entry)
	if err != nil {
		return "", err
	}
	cmd := exec.Command("go", "test", "-mod=mod", "-tags", "verif verifreplay", "-vet=off", "-count=1", "-timeout", "120s",
		"-overlay", of, "-run", "^TestVerifReplay$", "-v", "./"+pkg)
	cmd.Dir = repoDir()
	cmd.Env = append(os.Environ(), "GOFLAGS=-mod=mod", "GOPROXY=off", "GOSUMDB=off", "GOTOOLCHAIN=local", "VERIF_REPLAY_FILE="+replayFiles)
	done := make(chan struct{})
	var out []byte
	go func() {
		out, err = cmd.CombinedOutput()
		close(done)
	}()
	select {
	case <-done:
	case <-time.After(timeout):
		if cmd.Process != nil {
			cmd.Process.Kill()
		}
		<-done
		return string(out) + "\nVERIF-HANG: go test killed after timeout", nil
	}
	return string(out), nil
}

func nativeReplay(h *HarnessCfg, file string, v *Violation) replayOutcome {
	tmp, err := os.MkdirTemp("", "gosmt-replay")
	if err != nil {
		return replayOutcome{}
	}
	defer os.RemoveAll(tmp)
	tries := 1
	if v.Threaded {
		tries = 3
	}
	var out string
	for t := 0; t < tries; t++ {
		out, err = runGoTest(tmp, h.Pkg, h.Entry, file, 150*time.Second)
		if err != nil && out == "" {
			return replayOutcome{File: file, Output: err.Error()}
		}
		if replayShowsViolation(out, v) {
			return replayOutcome{File: file, Ran: true, Violated: true, Output: out}
		}
	}
	if os.Getenv("GOSMT_DEBUG") != "" {
		fmt.Println(out)
	}
	return replayOutcome{File: file, Ran: true, Output: out}
}

func replayShowsViolation(out string, v *Violation) bool {
	switch v.Kind {
	case "assert":
		return strings.Contains(out, "VERIF-ASSERT-FAIL: "+v.Msg)
	case "deadlock":
		return strings.Contains(out, "VERIF-HANG") || strings.Contains(out, "test timed out") || strings.Contains(out, "all goroutines are asleep")
	case "race":
		return false
	default: // panics of all kinds
		return strings.Contains(out, "VERIF-PANIC") || strings.Contains(out, "panic:") || strings.Contains(out, "fatal error:")
	}
}

// replayWitnesses runs sampled path witnesses natively; returns the number validated, -1 on mismatch.
func replayWitnesses(id string, h *HarnessCfg, res *RunResult) int {
	tmp, err := os.MkdirTemp("", "gosmt-wit")
	if err != nil {
		return 0
	}
	defer os.RemoveAll(tmp)
	var files []string
	for i, w := range res.Witnesses {
		f := filepath.Join(tmp, fmt.Sprintf("w%d.json", i))
		b, _ := json.Marshal(map[string]interface{}{"harness": h.Entry, "inputs": w, "params": h.Params})
		os.WriteFile(f, b, 0o644)
		files = append(files, f)
	}
	out, err := runGoTest(tmp, h.Pkg, h.Entry, strings.Join(files, ":"), 300*time.Second)
	if strings.Contains(out, "VERIF-HANG: go test killed") || strings.Contains(out, "[build failed]") && strings.Contains(out, "signal: killed") {
		// the machine was too busy to build and run the replay in time: once more
		out, err = runGoTest(tmp, h.Pkg, h.Entry, strings.Join(files, ":"), 600*time.Second)
	}
	if err != nil && out == "" {
		return 0
	}
	clean := strings.Count(out, "VERIF-REPLAY: clean")
	skipped := strings.Count(out, "VERIF-UNREPLAYABLE")
	if clean+skipped >= len(files) {
		return clean
	}
	fmt.Printf("  witness mismatch for %s: %d of %d path witnesses ran clean natively\n%s\n", h.Entry, clean, len(files), tailLines(out, 40))
	os.MkdirAll(filepath.Join(verifDir(), "replays", id), 0o755)
	for i, f := range files {
		b, _ := os.ReadFile(f)
		os.WriteFile(filepath.Join(verifDir(), "replays", id, fmt.Sprintf("witness-%s-%d.json", h.Entry, i)), b, 0o644)
	}
	return -1
}

func tailLines(s string, n int) string {
	l := strings.Split(s, "\n")
	if len(l) > n {
		l = l[len(l)-n:]
	}
	return strings.Join(l, "\n")
}

func cmdReplay(args []string) int {
	if len(args) < 1 {
		usage()
	}
	b, err := os.ReadFile(args[0])
	if err != nil {
		fmt.Println(err)
		return 2
	}
	var doc struct {
		Pkg, Harness, Kind, Msg string
		Threaded                bool
	}
	json.Unmarshal(b, &doc)
	tmp, _ := os.MkdirTemp("", "gosmt-replay")
	defer os.RemoveAll(tmp)
	abs, _ := filepath.Abs(args[0])
	out, _ := runGoTest(tmp, doc.Pkg, doc.Harness, abs, 150*time.Second)
	fmt.Println(out)
	if replayShowsViolation(out, &Violation{Kind: doc.Kind, Msg: doc.Msg}) {
		fmt.Println("REPLAY: violation reproduced")
		return 1
	}
	fmt.Println("REPLAY: not reproduced")
	return 0
}

// ---------- evidence ----------

func writeEvidence(id, tier string, seed int, results []*RunResult, cross []string, violations, replays int, inconclusive []string, spec *CheckSpec, wall time.Duration) {
	paths, trans, obl, dis, queries := 0, 0, 0, 0, 0
	sat, unsat, unk := 0, 0, 0
	var solverT float64
	funcs := map[string]int{}
	var harnesses []map[string]interface{}
	var samples []interface{}
	covers := map[string]int{}
	for _, r := range results {
		paths += r.Paths
		trans += r.Decisions + r.Steps
		obl += r.Obligations
		dis += r.Discharged
		queries += r.Queries
		sat += r.SatN
		unsat += r.UnsatN
		unk += r.UnknownN
		solverT += r.SolverTime.Seconds()
		for f, n := range r.Funcs {
			funcs[f] = n
		}
		for l, n := range r.Covers {
			covers[l] += n
		}
		harnesses = append(harnesses, map[string]interface{}{
			"pkg": r.Cfg.Pkg, "entry": r.Cfg.Entry, "paths": r.Paths, "infeasible_prefixes": r.Infeasible,
			"obligations": r.Obligations, "discharged_unsat": r.Discharged, "violations": len(r.Violations),
			"queries": r.Queries, "solver_s": r.SolverTime.Seconds(), "wall_s": r.Wall.Seconds(),
			"bounds": map[string]interface{}{"unwind": r.Cfg.Unwind, "preemption_bound": r.Cfg.Preempt, "max_faults": r.Cfg.MaxFaults, "map_order": r.Cfg.MapOrder, "pool_reuse": r.Cfg.PoolReuse, "lockset": r.Cfg.Lockset, "note": r.Cfg.Note},
			"max_threads": r.MaxThreads, "inconclusive": r.Inconclusive,
		})
		for _, s := range r.SamplePaths {
			if len(samples) < 12 {
				samples = append(samples, map[string]interface{}{"harness": r.Cfg.Entry, "path": s})
			}
		}
		for _, v := range r.Violations {
			if len(samples) < 16 {
				samples = append(samples, map[string]interface{}{"harness": r.Cfg.Entry, "counterexample": v.Inputs, "assertion": v.Msg})
			}
		}
	}
	if len(samples) == 0 {
		samples = append(samples, "no path completed")
	}
	var fl []string
	for f, n := range funcs {
		if strings.Contains(f, "256dpi") || strings.Contains(f, "tomb") || strings.Contains(f, "mercury") || strings.Contains(f, "bufio") {
			fl = append(fl, fmt.Sprintf("%s (%d instr)", f, n))
		}
	}
	sort.Strings(fl)
	if paths == 0 {
		paths = 1 // schema minimum; the run itself is reported as inconclusive
	}
	if trans == 0 {
		trans = 1
	}
	cov := map[string]interface{}{
		"states": paths, "transitions": trans, "traces_validated_against_impl": replays, "samples": samples,
		"obligations": obl, "discharged": dis,
		"explanation": "states = feasible symbolic paths explored to the end (each covers every input satisfying its path condition); transitions = decisions + SSA instructions executed; obligations = explicit and implicit assertions decided by the solver; traces_validated_against_impl = path witnesses / counterexamples re-run natively with matching outcome",
		"harnesses": harnesses, "functions_encoded": fl, "queries": map[string]int{"total": queries, "sat": sat, "unsat": unsat, "unknown": unk},
		"solver_time_s": solverT, "solvers": "cvc5 1.0.3 (--solve-bv-as-int=sum) deciding, z3 5.1.0 re-decides queries the primary answers unknown; thorough tier re-runs every harness on z3 5.1.0 and z3 4.8.12 (bit-blasting) and compares path and obligation counts",
		"cross_check": cross, "cover_points": covers, "inconclusive": inconclusive,
		"exhaustive": len(inconclusive) == 0,
	}
	if spec != nil {
		cov["bounds"] = spec.Bounds
	}
	ev := map[string]interface{}{
		"property_id": id, "tier": tier, "seed": seed, "level": "model_checking",
		"coverage": cov, "wall_s": wall.Seconds(), "violations": violations,
	}
	if spec != nil {
		ev["assumptions"] = spec.Assumptions
	}
	evDir := filepath.Join(verifDir(), "evidence")
	if d := os.Getenv("VERIF_EVIDENCE_DIR"); d != "" {
		evDir = d // experiments against a scratch worktree (seeded changes) must not overwrite the evidence of /repo
	}
	os.MkdirAll(evDir, 0o755)
	b, _ := json.MarshalIndent(ev, "", " ")
	os.WriteFile(filepath.Join(evDir, id+".json"), b, 0o644)
}
