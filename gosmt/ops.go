package main

import (
	"fmt"
	"go/token"
	"go/types"

	"golang.org/x/tools/go/ssa"
)

// ---------- arithmetic ----------

func (ex *Exec) binop(op token.Token, a, b Value, ta, tb types.Type) Value {
	c := ex.ctx
	switch x := a.(type) {
	case *Term:
		y, ok := b.(*Term)
		if !ok {
			panic(ex.unsupported(fmt.Sprintf("binop %s on Term and %T", op, b)))
		}
		_, signed, _ := intWidth(ta)
		if x.w == 0 { // bool
			switch op {
			case token.EQL:
				return c.Eq(x, y)
			case token.NEQ:
				return c.Not(c.Eq(x, y))
			case token.AND, token.LAND:
				return c.And(x, y)
			case token.OR, token.LOR:
				return c.Or(x, y)
			}
			panic(ex.unsupported("bool binop " + op.String()))
		}
		switch op {
		case token.SHL, token.SHR:
			// shift count may have a different width; Go: count >= width gives 0 / sign fill
			yy := y
			if yy.w < x.w {
				yy = c.ZExt(yy, x.w)
			} else if yy.w > x.w {
				// large counts saturate
				big := c.Not(c.Ule(yy, c.Const(yy.w, uint64(x.w))))
				low := c.Extract(yy, x.w-1, 0)
				yy = c.Ite(big, c.Const(x.w, uint64(x.w)), low)
			}
			if op == token.SHL {
				return c.Bin(OpShl, x, yy)
			}
			if signed {
				return c.Bin(OpAShr, x, yy)
			}
			return c.Bin(OpLShr, x, yy)
		}
		if x.w != y.w {
			panic(ex.unsupported(fmt.Sprintf("binop %s width mismatch %d/%d", op, x.w, y.w)))
		}
		switch op {
		case token.ADD:
			return c.Bin(OpAdd, x, y)
		case token.SUB:
			return c.Bin(OpSub, x, y)
		case token.MUL:
			return c.Bin(OpMul, x, y)
		case token.QUO, token.REM:
			ex.require(c.Not(c.Eq(y, c.Const(y.w, 0))), "div-zero", "integer division by zero")
			if signed {
				if op == token.QUO {
					return c.Bin(OpSDiv, x, y)
				}
				return c.Bin(OpSRem, x, y)
			}
			if op == token.QUO {
				return c.Bin(OpUDiv, x, y)
			}
			return c.Bin(OpURem, x, y)
		case token.AND:
			return c.Bin(OpBAnd, x, y)
		case token.OR:
			return c.Bin(OpBOr, x, y)
		case token.XOR:
			return c.Bin(OpBXor, x, y)
		case token.AND_NOT:
			return c.Bin(OpBAnd, x, c.BNot(y))
		case token.EQL:
			return c.Eq(x, y)
		case token.NEQ:
			return c.Not(c.Eq(x, y))
		case token.LSS:
			if signed {
				return c.Slt(x, y)
			}
			return c.Ult(x, y)
		case token.LEQ:
			if signed {
				return c.Sle(x, y)
			}
			return c.Ule(x, y)
		case token.GTR:
			if signed {
				return c.Slt(y, x)
			}
			return c.Ult(y, x)
		case token.GEQ:
			if signed {
				return c.Sle(y, x)
			}
			return c.Ule(y, x)
		}
	case float64:
		y := b.(float64)
		switch op {
		case token.ADD:
			return x + y
		case token.SUB:
			return x - y
		case token.MUL:
			return x * y
		case token.QUO:
			return x / y
		case token.EQL:
			return c.Bool(x == y)
		case token.NEQ:
			return c.Bool(x != y)
		case token.LSS:
			return c.Bool(x < y)
		case token.LEQ:
			return c.Bool(x <= y)
		case token.GTR:
			return c.Bool(x > y)
		case token.GEQ:
			return c.Bool(x >= y)
		}
	case *StrVal:
		y := b.(*StrVal)
		switch op {
		case token.ADD:
			return ex.strConcat(x, y)
		case token.EQL:
			return ex.strEq(x, y)
		case token.NEQ:
			return c.Not(ex.strEq(x, y))
		case token.LSS:
			return ex.strLess(x, y, false)
		case token.LEQ:
			return ex.strLess(x, y, true)
		case token.GTR:
			return ex.strLess(y, x, false)
		case token.GEQ:
			return ex.strLess(y, x, true)
		}
	default:
		switch op {
		case token.EQL:
			return ex.valEq(a, b)
		case token.NEQ:
			return c.Not(ex.valEq(a, b))
		}
	}
	panic(ex.unsupported(fmt.Sprintf("binop %s on %T", op, a)))
}

// valEq: Go == on arbitrary comparable values.
func (ex *Exec) valEq(a, b Value) *Term {
	c := ex.ctx
	switch x := a.(type) {
	case *Term:
		y, ok := b.(*Term)
		if !ok || x.w != y.w {
			return c.False
		}
		return c.Eq(x, y)
	case float64:
		y, ok := b.(float64)
		return c.Bool(ok && x == y)
	case *StrVal:
		y, ok := b.(*StrVal)
		if !ok {
			return c.False
		}
		return ex.strEq(x, y)
	case Ptr:
		y, ok := b.(Ptr)
		if !ok {
			return c.False
		}
		if x.obj != y.obj {
			return c.False
		}
		if x.obj == nil {
			return c.True
		}
		if len(x.path) != len(y.path) {
			return c.False
		}
		for i := range x.path {
			if x.path[i] != y.path[i] {
				return c.False
			}
		}
		if (x.bidx == nil) != (y.bidx == nil) {
			return c.False
		}
		if x.bidx != nil {
			return c.Eq(x.bidx, y.bidx)
		}
		return c.True
	case IfaceVal:
		y, ok := b.(IfaceVal)
		if !ok {
			return c.False
		}
		if x.t == nil || y.t == nil {
			return c.Bool(x.t == nil && y.t == nil)
		}
		if !types.Identical(x.t, y.t) {
			return c.False
		}
		return ex.valEq(x.v, y.v)
	case MapVal:
		y, _ := b.(MapVal)
		return c.Bool(x.m == y.m)
	case ChanVal:
		y, _ := b.(ChanVal)
		return c.Bool(x.c == y.c)
	case *FuncVal:
		y, _ := b.(*FuncVal)
		return c.Bool(x == nil && y == nil)
	case *SliceVal:
		// only comparison with nil is legal
		y, _ := b.(*SliceVal)
		if y != nil && y.obj == nil {
			return c.Bool(x.obj == nil)
		}
		if x.obj == nil {
			return c.Bool(y == nil || y.obj == nil)
		}
		return c.False
	case *StructVal:
		y, ok := b.(*StructVal)
		if !ok || len(x.f) != len(y.f) {
			return c.False
		}
		r := c.True
		for i := range x.f {
			r = c.And(r, ex.valEq(x.f[i], y.f[i]))
		}
		return r
	case *ArrayVal:
		y, ok := b.(*ArrayVal)
		if !ok || len(x.e) != len(y.e) {
			return c.False
		}
		r := c.True
		for i := range x.e {
			r = c.And(r, ex.valEq(x.e[i], y.e[i]))
		}
		return r
	case nil:
		return c.Bool(b == nil)
	}
	panic(ex.unsupported(fmt.Sprintf("equality on %T", a)))
}

func (ex *Exec) unop(x *ssa.UnOp, v Value) Value {
	c := ex.ctx
	switch x.Op {
	case token.MUL:
		return ex.load(v.(Ptr))
	case token.NOT:
		return c.Not(v.(*Term))
	case token.SUB:
		if f, ok := v.(float64); ok {
			return -f
		}
		return c.Neg(v.(*Term))
	case token.XOR:
		return c.BNot(v.(*Term))
	}
	panic(ex.unsupported("unop " + x.Op.String()))
}

func (ex *Exec) convert(v Value, from, to types.Type) Value {
	c := ex.ctx
	fu, tu := from.Underlying(), to.Underlying()
	switch tv := tu.(type) {
	case *types.Basic:
		if tv.Info()&types.IsString != 0 {
			switch x := v.(type) {
			case *StrVal:
				return x
			case *SliceVal: // string(bytes)
				if x.obj == nil {
					return ex.constStr("")
				}
				ex.access(x.obj, false)
				ml := -1
				if x.len.IsConst() {
					ml = int(x.len.k)
				} else if x.cap.IsConst() {
					ml = int(x.cap.k)
				} else if x.obj.bytes.size.IsConst() {
					ml = int(x.obj.bytes.size.k)
				} else if m, ok := ex.maxOf[x.obj]; ok {
					ml = m
				}
				return &StrVal{seq: mkSub(ex, logSeq{x.obj.bytes.log}, x.off), len: x.len, maxLen: ml}
			case *Term: // string(rune)
				if x.IsConst() {
					return ex.constStr(string(rune(x.k)))
				}
			}
			panic(ex.unsupported(fmt.Sprintf("convert %T to string", v)))
		}
		if tv.Info()&types.IsFloat != 0 {
			switch x := v.(type) {
			case float64:
				return x
			case *Term:
				if !x.IsConst() {
					panic(ex.unsupported("int->float conversion of symbolic value"))
				}
				_, signed, _ := intWidth(from)
				if signed {
					return float64(x.SVal())
				}
				return float64(x.k)
			}
		}
		if tv.Kind() == types.UnsafePointer {
			return v
		}
		w, _, ok := intWidth(to)
		if ok {
			switch x := v.(type) {
			case float64:
				return c.Const(w, uint64(int64(x)))
			case *Term:
				_, fsigned, _ := intWidth(from)
				if x.w == w {
					return x
				}
				if x.w > w {
					return c.Extract(x, w-1, 0)
				}
				if fsigned {
					return c.SExt(x, w)
				}
				return c.ZExt(x, w)
			}
		}
	case *types.Slice:
		if s, ok := v.(*StrVal); ok && isByteKind(tv.Elem()) {
			o := ex.newByteObject(s.len, s.seq)
			if s.maxLen >= 0 {
				ex.maxOf[o] = s.maxLen
			}
			return &SliceVal{o, c.I64(0), s.len, s.len}
		}
		if _, ok := fu.(*types.Slice); ok {
			return v
		}
	case *types.Pointer:
		return v
	}
	panic(ex.unsupported(fmt.Sprintf("convert %s -> %s (%T)", from, to, v)))
}

// ---------- strings ----------

func (ex *Exec) strConcat(a, b *StrVal) *StrVal {
	if a.len.IsConst() && a.len.k == 0 {
		return b
	}
	if b.len.IsConst() && b.len.k == 0 {
		return a
	}
	if sa, ok := a.concrete(); ok {
		if sb, ok := b.concrete(); ok {
			return ex.constStr(sa + sb)
		}
	}
	ml := -1
	if a.maxLen >= 0 && b.maxLen >= 0 {
		ml = a.maxLen + b.maxLen
	}
	return &StrVal{seq: catSeq{a.seq, a.len, b.seq}, len: ex.ctx.Add(a.len, b.len), maxLen: ml}
}

func (ex *Exec) seqEq(a ByteSeq, alen *Term, amax int, b ByteSeq, blen *Term, bmax int) *Term {
	c := ex.ctx
	lenEq := c.Eq(alen, blen)
	if lenEq.IsFalse() {
		return c.False
	}
	n := -1
	exact := false
	if alen.IsConst() {
		n, exact = int(alen.k), true
	} else if blen.IsConst() {
		n, exact = int(blen.k), true
	} else {
		if amax >= 0 {
			n = amax
		}
		if bmax >= 0 && (n < 0 || bmax < n) {
			n = bmax
		}
	}
	if n < 0 {
		panic(ex.unsupported("equality of unbounded symbolic byte strings in branch position"))
	}
	if n > 256 {
		panic(ex.unsupported(fmt.Sprintf("equality expansion over %d bytes", n)))
	}
	r := lenEq
	for k := 0; k < n; k++ {
		ki := c.I64(int64(k))
		e := c.Eq(a.At(ex, ki), b.At(ex, ki))
		if !exact {
			e = c.Or(c.Not(c.Ult(ki, alen)), e)
		}
		r = c.And(r, e)
		if r.IsFalse() {
			return r
		}
	}
	return r
}

func (ex *Exec) strEq(a, b *StrVal) *Term {
	if a == b {
		return ex.ctx.True
	}
	return ex.seqEq(a.seq, a.len, a.maxLen, b.seq, b.len, b.maxLen)
}

// strLess: lexicographic a < b (or <=), bounded expansion.
func (ex *Exec) strLess(a, b *StrVal, orEq bool) *Term {
	c := ex.ctx
	n := -1
	if a.len.IsConst() {
		n = int(a.len.k)
	} else if a.maxLen >= 0 {
		n = a.maxLen
	}
	m := -1
	if b.len.IsConst() {
		m = int(b.len.k)
	} else if b.maxLen >= 0 {
		m = b.maxLen
	}
	if n < 0 || m < 0 {
		panic(ex.unsupported("ordering of unbounded symbolic strings"))
	}
	if m < n {
		n = m
	}
	// result if all compared positions equal: len(a) < len(b) (or <=)
	var r *Term
	if orEq {
		r = c.Ule(a.len, b.len)
	} else {
		r = c.Ult(a.len, b.len)
	}
	for k := n - 1; k >= 0; k-- {
		ki := c.I64(int64(k))
		ina := c.Ult(ki, a.len)
		inb := c.Ult(ki, b.len)
		ak, bk := a.seq.At(ex, ki), b.seq.At(ex, ki)
		// at position k: if a ended -> (b ended ? orEq : true); if b ended -> false
		both := c.And(ina, inb)
		step := c.Ite(c.Ult(ak, bk), c.True, c.Ite(c.Ult(bk, ak), c.False, r))
		var ended *Term
		if orEq {
			ended = c.Not(ina) // a ended: a is prefix -> a <= b
		} else {
			ended = c.And(c.Not(ina), inb)
		}
		r = c.Ite(both, step, ended)
	}
	return r
}

// strIndexByte models strings.Index / bytes.IndexByte with a one-byte needle.
func (ex *Exec) seqIndexByte(seq ByteSeq, ln *Term, maxLen int, needle *Term, memoKey string) *Term {
	c := ex.ctx
	if memoKey != "" {
		if t, ok := ex.idxMemo[memoKey]; ok {
			return t
		}
	}
	n := maxLen
	if ln.IsConst() {
		n = int(ln.k)
	}
	if n < 0 {
		panic(ex.unsupported("IndexByte on unbounded symbolic string"))
	}
	// fully concrete?
	allConst := ln.IsConst() && needle.IsConst()
	if allConst {
		for k := 0; k < n; k++ {
			b := seq.At(ex, c.I64(int64(k)))
			if !b.IsConst() {
				allConst = false
				break
			}
			if b.k == needle.k {
				return c.I64(int64(k))
			}
		}
		if allConst {
			return c.I64(-1)
		}
	}
	r := c.Fresh(64, "idx")
	// r == -1: no byte equals needle ; 0<=r<len: s[r]==needle and none before
	none := c.True
	var cases *Term = nil
	noneBefore := c.True
	for k := 0; k < n; k++ {
		ki := c.I64(int64(k))
		in := c.Ult(ki, ln)
		eqk := c.Eq(seq.At(ex, ki), needle)
		hit := c.AndN(in, eqk, noneBefore, c.Eq(r, ki))
		if cases == nil {
			cases = hit
		} else {
			cases = c.Or(cases, hit)
		}
		noneBefore = c.And(noneBefore, c.Or(c.Not(in), c.Not(eqk)))
	}
	none = c.And(noneBefore, c.Eq(r, c.I64(-1)))
	if cases == nil {
		cases = c.False
	}
	ex.assume(c.Or(none, cases))
	if memoKey != "" {
		ex.idxMemo[memoKey] = r
	}
	return r
}

// ---------- indexing / slicing ----------

func (ex *Exec) boundsCheck(idx, ln *Term, what string) {
	c := ex.ctx
	ex.require(c.Ult(idx, ln), "bounds", "index out of range ("+what+")")
}

func (ex *Exec) indexAddr(base Value, idx *Term, bt types.Type) Value {
	c := ex.ctx
	idx = ex.toIdx(idx)
	switch x := base.(type) {
	case *SliceVal:
		ex.boundsCheck(idx, x.len, "slice")
		if x.obj == nil {
			panic(pathEnd{"violated", "index of nil slice"})
		}
		if x.obj.bytes != nil {
			return Ptr{obj: x.obj, bidx: c.Add(x.off, idx)}
		}
		av := x.obj.val.(*ArrayVal)
		off := ex.concretize(x.off, 0, int64(len(av.e)), "slice offset")
		i := ex.concretize(idx, 0, int64(len(av.e)), "slice index")
		return Ptr{obj: x.obj, path: []int{int(off + i)}}
	case Ptr: // *[N]T
		ex.nilCheck(x, "index address")
		if x.obj.bytes != nil && len(x.path) == 0 {
			ex.boundsCheck(idx, x.obj.bytes.size, "array")
			return Ptr{obj: x.obj, bidx: idx}
		}
		at := bt.Underlying().(*types.Pointer).Elem().Underlying().(*types.Array)
		ex.boundsCheck(idx, c.I64(at.Len()), "array")
		i := ex.concretize(idx, 0, at.Len()-1, "array index")
		return Ptr{obj: x.obj, path: append(append([]int(nil), x.path...), int(i))}
	}
	panic(ex.unsupported(fmt.Sprintf("IndexAddr on %T", base)))
}

func (ex *Exec) toIdx(t *Term) *Term {
	if t.w == 64 {
		return t
	}
	return ex.ctx.SExt(t, 64)
}

func (ex *Exec) indexVal(base Value, idx *Term, bt types.Type) Value {
	idx = ex.toIdx(idx)
	switch x := base.(type) {
	case *ArrayVal:
		ex.boundsCheck(idx, ex.ctx.I64(int64(len(x.e))), "array")
		i := ex.concretize(idx, 0, int64(len(x.e)-1), "array index")
		return copyVal(x.e[i])
	case *StrVal:
		ex.boundsCheck(idx, x.len, "string")
		return x.seq.At(ex, idx)
	}
	panic(ex.unsupported(fmt.Sprintf("Index on %T", base)))
}

func (ex *Exec) lookup(fr *Frame, x *ssa.Lookup) {
	base := ex.get(fr, x.X)
	switch b := base.(type) {
	case *StrVal:
		idx := ex.toIdx(ex.get(fr, x.Index).(*Term))
		ex.boundsCheck(idx, b.len, "string")
		ex.set(fr, x, b.seq.At(ex, idx))
	case MapVal:
		key := ex.get(fr, x.Index)
		var val Value
		found := false
		if b.m != nil {
			ex.access(b.m.obj, false)
			if i := ex.mapFind(b.m, key); i >= 0 {
				val, found = copyVal(b.m.vals[i]), true
			}
		}
		if !found {
			val = ex.zero(x.X.Type().Underlying().(*types.Map).Elem())
		}
		if x.CommaOk {
			ex.set(fr, x, Tuple{val, ex.ctx.Bool(found)})
		} else {
			ex.set(fr, x, val)
		}
	default:
		panic(ex.unsupported(fmt.Sprintf("Lookup on %T", base)))
	}
}

// mapFind returns the index of key, forking on symbolic key equality.
func (ex *Exec) mapFind(m *MapObj, key Value) int {
	for i, k := range m.keys {
		eq := ex.valEq(k, key)
		if ex.branch(eq) {
			return i
		}
	}
	return -1
}

func (ex *Exec) mapUpdate(m *MapObj, key, val Value) {
	ex.access(m.obj, true)
	if i := ex.mapFind(m, key); i >= 0 {
		m.vals[i] = copyVal(val)
		return
	}
	m.keys = append(m.keys, copyVal(key))
	m.vals = append(m.vals, copyVal(val))
}

func (ex *Exec) mapDelete(m *MapObj, key Value) {
	ex.access(m.obj, true)
	if i := ex.mapFind(m, key); i >= 0 {
		m.keys = append(append([]Value(nil), m.keys[:i]...), m.keys[i+1:]...)
		m.vals = append(append([]Value(nil), m.vals[:i]...), m.vals[i+1:]...)
	}
}

func (ex *Exec) makeSlice(t types.Type, ln, cp *Term) Value {
	c := ex.ctx
	ln, cp = ex.toIdx(ln), ex.toIdx(cp)
	et := t.Underlying().(*types.Slice).Elem()
	ex.require(c.Sle(c.I64(0), ln), "make-len", "makeslice: len out of range")
	ex.require(c.Sle(ln, cp), "make-cap", "makeslice: cap out of range")
	if isByteKind(et) {
		o := ex.newByteObject(cp, zeroSeq{})
		return &SliceVal{o, c.I64(0), ln, cp}
	}
	n := ex.concretize(cp, 0, 64, "make cap")
	l := ex.concretize(ln, 0, n, "make len")
	av := &ArrayVal{e: make([]Value, n)}
	for i := range av.e {
		av.e[i] = ex.zero(et)
	}
	o := ex.newObject(et, av)
	return &SliceVal{o, c.I64(0), c.I64(l), c.I64(n)}
}

func (ex *Exec) sliceOp(fr *Frame, x *ssa.Slice) Value {
	c := ex.ctx
	base := ex.get(fr, x.X)
	var lo, hi, mx *Term
	if x.Low != nil {
		lo = ex.toIdx(ex.get(fr, x.Low).(*Term))
	}
	if x.High != nil {
		hi = ex.toIdx(ex.get(fr, x.High).(*Term))
	}
	if x.Max != nil {
		mx = ex.toIdx(ex.get(fr, x.Max).(*Term))
	}
	if lo == nil {
		lo = c.I64(0)
	}
	switch b := base.(type) {
	case *StrVal:
		if hi == nil {
			hi = b.len
		}
		ex.require(c.And(c.Ule(lo, hi), c.Ule(hi, b.len)), "slice-bounds", "slice bounds out of range (string)")
		return &StrVal{seq: mkSub(ex, b.seq, lo), len: c.Sub(hi, lo), maxLen: b.maxLen}
	case *SliceVal:
		if hi == nil {
			hi = b.len
		}
		if mx == nil {
			mx = b.cap
		}
		ex.require(c.AndN(c.Ule(lo, hi), c.Ule(hi, mx), c.Ule(mx, b.cap)), "slice-bounds", "slice bounds out of range")
		if b.obj == nil {
			return b
		}
		return &SliceVal{b.obj, c.Add(b.off, lo), c.Sub(hi, lo), c.Sub(mx, lo)}
	case Ptr: // *[N]T
		ex.nilCheck(b, "slice of array pointer")
		var n *Term
		if b.obj.bytes != nil {
			n = b.obj.bytes.size
		} else {
			av, ok := ex.loadRef(b).(*ArrayVal)
			if !ok {
				panic(ex.unsupported("slice of non-array pointer"))
			}
			if len(b.path) != 0 {
				panic(ex.unsupported("slice of array nested in object"))
			}
			n = c.I64(int64(len(av.e)))
		}
		if hi == nil {
			hi = n
		}
		if mx == nil {
			mx = n
		}
		ex.require(c.AndN(c.Ule(lo, hi), c.Ule(hi, mx), c.Ule(mx, n)), "slice-bounds", "slice bounds out of range (array)")
		return &SliceVal{b.obj, lo, c.Sub(hi, lo), c.Sub(mx, lo)}
	}
	panic(ex.unsupported(fmt.Sprintf("Slice on %T", base)))
}

// loadRef returns the (uncopied) value a pointer designates.
func (ex *Exec) loadRef(p Ptr) Value {
	v := p.obj.val
	for _, i := range p.path {
		switch x := v.(type) {
		case *StructVal:
			v = x.f[i]
		case *ArrayVal:
			v = x.e[i]
		}
	}
	return v
}

// ---------- type assertions ----------

func (ex *Exec) implements(dyn types.Type, it *types.Interface) bool {
	return types.Implements(dyn, it)
}

func (ex *Exec) typeAssert(fr *Frame, x *ssa.TypeAssert) {
	iv := ex.get(fr, x.X).(IfaceVal)
	var ok bool
	var res Value
	if it, isIface := x.AssertedType.Underlying().(*types.Interface); isIface {
		ok = iv.t != nil && ex.implements(iv.t, it)
		if ok {
			res = iv
		} else {
			res = IfaceVal{}
		}
	} else {
		ok = iv.t != nil && types.Identical(iv.t, x.AssertedType)
		if ok {
			res = iv.v
		} else {
			res = ex.zero(x.AssertedType)
		}
	}
	if x.CommaOk {
		ex.set(fr, x, Tuple{res, ex.ctx.Bool(ok)})
		return
	}
	if !ok {
		dyn := "nil"
		if iv.t != nil {
			dyn = iv.t.String()
		}
		ex.violationHere("type-assert", fmt.Sprintf("interface conversion: %s is not %s", dyn, x.AssertedType))
		panic(pathEnd{"violated", "type assertion"})
	}
	ex.set(fr, x, res)
}

// ---------- range ----------

func (ex *Exec) makeRange(v Value) Value {
	switch x := v.(type) {
	case MapVal:
		it := &RangeIter{m: x.m}
		if x.m != nil {
			ex.access(x.m.obj, false)
			keys := append([]Value(nil), x.m.keys...)
			if ex.cfg.MapOrder && len(keys) > 1 {
				// choose a permutation by successive decisions
				var perm []Value
				rest := keys
				for len(rest) > 1 {
					i := ex.decide(len(rest), "maporder", nil)
					perm = append(perm, rest[i])
					rest = append(append([]Value(nil), rest[:i]...), rest[i+1:]...)
				}
				perm = append(perm, rest[0])
				keys = perm
			}
			it.keys = keys
		}
		return it
	case *StrVal:
		return &RangeIter{str: x}
	}
	panic(ex.unsupported(fmt.Sprintf("range over %T", v)))
}

func (ex *Exec) next(it *RangeIter, x *ssa.Next) Value {
	c := ex.ctx
	if x.IsString {
		panic(ex.unsupported("range over string"))
	}
	tt := x.Type().(*types.Tuple)
	for it.pos < len(it.keys) {
		k := it.keys[it.pos]
		it.pos++
		// entry may have been deleted meanwhile (concrete identity comparison)
		idx := -1
		for i, mk := range it.m.keys {
			if eq := ex.valEq(mk, k); eq.IsTrue() {
				idx = i
				break
			}
		}
		if idx < 0 {
			continue
		}
		return Tuple{c.True, copyVal(k), copyVal(it.m.vals[idx])}
	}
	var zk, zv Value
	if tt.At(1).Type() != nil && !isInvalid(tt.At(1).Type()) {
		zk = ex.zero(tt.At(1).Type())
	}
	if tt.At(2).Type() != nil && !isInvalid(tt.At(2).Type()) {
		zv = ex.zero(tt.At(2).Type())
	}
	return Tuple{c.False, zk, zv}
}

func isInvalid(t types.Type) bool {
	b, ok := t.(*types.Basic)
	return ok && b.Kind() == types.Invalid
}

// ---------- builtins ----------

func (ex *Exec) builtin(name string, args []Value, res *ssa.Call) Value {
	c := ex.ctx
	switch name {
	case "builtin:len":
		switch x := args[0].(type) {
		case *StrVal:
			return x.len
		case *SliceVal:
			return x.len
		case MapVal:
			if x.m == nil {
				return c.I64(0)
			}
			ex.access(x.m.obj, false)
			return c.I64(int64(len(x.m.keys)))
		case ChanVal:
			if x.c == nil {
				return c.I64(0)
			}
			return c.I64(int64(len(x.c.buf)))
		case *ArrayVal:
			return c.I64(int64(len(x.e)))
		case Ptr:
			if x.obj != nil && x.obj.bytes != nil {
				return x.obj.bytes.size
			}
			if av, ok := ex.loadRef(x).(*ArrayVal); ok {
				return c.I64(int64(len(av.e)))
			}
		}
	case "builtin:cap":
		switch x := args[0].(type) {
		case *SliceVal:
			return x.cap
		case ChanVal:
			if x.c == nil {
				return c.I64(0)
			}
			return c.I64(int64(x.c.cap))
		}
	case "builtin:append":
		return ex.appendOp(args[0].(*SliceVal), args[1], res)
	case "builtin:copy":
		return ex.copyOp(args[0].(*SliceVal), args[1])
	case "builtin:delete":
		mv := args[0].(MapVal)
		if mv.m != nil {
			ex.mapDelete(mv.m, args[1])
		}
		return nil
	case "builtin:close":
		ex.closeChan(args[0].(ChanVal))
		return nil
	case "builtin:ssa:wrapnilchk":
		p := args[0].(Ptr)
		ex.nilCheck(p, "wrapnilchk")
		return p
	case "builtin:print", "builtin:println":
		return nil
	case "builtin:min", "builtin:max":
		a, b := args[0].(*Term), args[1].(*Term)
		_, signed, _ := intWidth(res.Type())
		var lt *Term
		if signed {
			lt = c.Slt(a, b)
		} else {
			lt = c.Ult(a, b)
		}
		if name == "builtin:min" {
			return c.Ite(lt, a, b)
		}
		return c.Ite(lt, b, a)
	}
	panic(ex.unsupported(fmt.Sprintf("builtin %s on %T", name, args[0])))
}

func (ex *Exec) byteSeqOf(v Value) (ByteSeq, *Term) {
	switch x := v.(type) {
	case *StrVal:
		return x.seq, x.len
	case *SliceVal:
		if x.obj == nil {
			return zeroSeq{}, ex.ctx.I64(0)
		}
		ex.access(x.obj, false)
		return mkSub(ex, logSeq{x.obj.bytes.log}, x.off), x.len
	}
	panic(ex.unsupported(fmt.Sprintf("byte sequence of %T", v)))
}

func (ex *Exec) bulkCopy(dst *Object, dstOff *Term, src ByteSeq, n *Term) {
	if n.IsConst() && n.k == 0 {
		return
	}
	ex.access(dst, true)
	bm := dst.bytes
	d := 0
	if bm.log != nil {
		d = bm.log.depth + 1
	}
	// small concrete copies become individual stores when everything is constant (keeps reads cheap)
	if n.IsConst() && n.k <= 16 && dstOff.IsConst() {
		allc := true
		vals := make([]*Term, n.k)
		for k := uint64(0); k < n.k; k++ {
			vals[k] = src.At(ex, ex.ctx.I64(int64(k)))
			if !vals[k].IsConst() {
				allc = false
			}
		}
		if allc {
			for k := uint64(0); k < n.k; k++ {
				bm.log = &LogEntry{prev: bm.log, kind: 1, off: ex.ctx.I64(int64(dstOff.k + k)), val: vals[k], depth: d}
				d++
			}
			return
		}
	}
	bm.log = &LogEntry{prev: bm.log, kind: 2, off: dstOff, src: src, n: n, depth: d}
}

func (ex *Exec) copyOp(dst *SliceVal, srcv Value) Value {
	c := ex.ctx
	if dst.obj != nil && dst.obj.bytes == nil {
		// generic element copy (concrete)
		src := srcv.(*SliceVal)
		n := dst.len.k
		if src.len.k < n {
			n = src.len.k
		}
		if !dst.len.IsConst() || !src.len.IsConst() {
			panic(ex.unsupported("copy of non-byte slices with symbolic length"))
		}
		if n == 0 {
			return c.I64(0)
		}
		da, sa := dst.obj.val.(*ArrayVal), src.obj.val.(*ArrayVal)
		tmp := make([]Value, n)
		for i := uint64(0); i < n; i++ {
			tmp[i] = copyVal(sa.e[src.off.k+i])
		}
		ex.access(dst.obj, true)
		for i := uint64(0); i < n; i++ {
			da.e[dst.off.k+i] = tmp[i]
		}
		return c.I64(int64(n))
	}
	seq, sl := ex.byteSeqOf(srcv)
	n := ex.minLen(dst.len, sl)
	if dst.obj == nil {
		return c.I64(0)
	}
	ex.bulkCopy(dst.obj, dst.off, seq, n)
	return n
}

func (ex *Exec) appendOp(s *SliceVal, more Value, res *ssa.Call) Value {
	c := ex.ctx
	var et types.Type
	if res != nil {
		et = res.Type().Underlying().(*types.Slice).Elem()
	}
	isBytes := (s.obj != nil && s.obj.bytes != nil) || (s.obj == nil && et != nil && isByteKind(et))
	if isBytes {
		seq, ml := ex.byteSeqOf(more)
		if ml.IsConst() && ml.k == 0 {
			return s
		}
		newLen := c.Add(s.len, ml)
		if s.obj != nil && ex.branch(c.Ule(newLen, s.cap)) {
			ex.bulkCopy(s.obj, c.Add(s.off, s.len), seq, ml)
			return &SliceVal{s.obj, s.off, newLen, s.cap}
		}
		o := ex.newByteObject(newLen, zeroSeq{})
		if s.obj != nil {
			oldSeq, _ := ex.byteSeqOf(s)
			ex.bulkCopy(o, c.I64(0), oldSeq, s.len)
		}
		ex.bulkCopy(o, s.len, seq, ml)
		return &SliceVal{o, c.I64(0), newLen, newLen}
	}
	m := more.(*SliceVal)
	if !s.len.IsConst() || !m.len.IsConst() || !s.cap.IsConst() || !s.off.IsConst() || !m.off.IsConst() {
		panic(ex.unsupported("append on non-byte slice with symbolic bounds"))
	}
	if m.len.k == 0 {
		return s
	}
	var src []Value
	ma := m.obj.val.(*ArrayVal)
	for i := uint64(0); i < m.len.k; i++ {
		src = append(src, copyVal(ma.e[m.off.k+i]))
	}
	newLen := s.len.k + m.len.k
	if s.obj != nil && newLen <= s.cap.k {
		ex.access(s.obj, true)
		av := s.obj.val.(*ArrayVal)
		for i, v := range src {
			av.e[s.off.k+s.len.k+uint64(i)] = v
		}
		return &SliceVal{s.obj, s.off, c.I64(int64(newLen)), s.cap}
	}
	newCap := newLen
	if s.cap.k*2 > newCap {
		newCap = s.cap.k * 2
	}
	av := &ArrayVal{e: make([]Value, newCap)}
	if s.obj != nil {
		old := s.obj.val.(*ArrayVal)
		for i := uint64(0); i < s.len.k; i++ {
			av.e[i] = copyVal(old.e[s.off.k+i])
		}
	}
	for i, v := range src {
		av.e[s.len.k+uint64(i)] = v
	}
	if et == nil {
		et = m.obj.typ
	}
	for i := newLen; i < newCap; i++ {
		av.e[i] = ex.zero(et)
	}
	o := ex.newObject(et, av)
	return &SliceVal{o, c.I64(0), c.I64(int64(newLen)), c.I64(int64(newCap))}
}

// minLen returns min(a,b); when the path condition decides the comparison the
// simpler term is used (keeps later memory reads small).
func (ex *Exec) minLen(a, b *Term) *Term {
	c := ex.ctx
	lt := c.Ult(a, b)
	if lt.IsConst() {
		if lt.k == 1 {
			return a
		}
		return b
	}
	if ex.implied(c.Not(lt)) { // b <= a always
		return b
	}
	if ex.implied(c.Ule(a, b)) {
		return a
	}
	return c.Ite(lt, a, b)
}

// implied: does the path condition imply t?  (unknown counts as "no")
func (ex *Exec) implied(t *Term) bool {
	if t.IsTrue() {
		return true
	}
	if t.IsFalse() {
		return false
	}
	neg := ex.ctx.Not(t)
	if ex.unsatCache[neg.id] {
		return true
	}
	r := ex.checkWith(neg)
	if r == Unsat {
		ex.unsatCache[neg.id] = true
		return true
	}
	return false
}
