package main

import (
	"encoding/json"
	"flag"
	"fmt"
	"os"
	"runtime"
	"sort"
	"strings"
)

func usage() {
	fmt.Fprintln(os.Stderr, `usage:
  gosmt run   -pkg <dir> -entry <Func> [-unwind N] [-preempt N] [-workers N] [-solver z3]
  gosmt check <property-id> [--tier quick|thorough]
  gosmt replay <file>`)
	os.Exit(2)
}

func main() {
	if len(os.Args) < 2 {
		usage()
	}
	switch os.Args[1] {
	case "run":
		cmdRun(os.Args[2:])
	case "check":
		os.Exit(cmdCheck(os.Args[2:]))
	case "replay":
		os.Exit(cmdReplay(os.Args[2:]))
	default:
		usage()
	}
}

func cmdRun(args []string) {
	fs := flag.NewFlagSet("run", flag.ExitOnError)
	cfg := &HarnessCfg{}
	fs.StringVar(&cfg.Pkg, "pkg", "packet", "package dir")
	fs.StringVar(&cfg.Entry, "entry", "", "harness function")
	fs.IntVar(&cfg.Unwind, "unwind", 8, "loop unwinding bound (symbolic iterations)")
	fs.IntVar(&cfg.Preempt, "preempt", 0, "pre-emption bound")
	fs.IntVar(&cfg.MaxFaults, "faults", 0, "max injected faults per path (0 = unlimited)")
	fs.BoolVar(&cfg.MapOrder, "maporder", false, "explore map iteration orders")
	fs.BoolVar(&cfg.PoolReuse, "pool", false, "explore sync.Pool reuse")
	fs.BoolVar(&cfg.Lockset, "lockset", false, "lockset race check")
	fs.IntVar(&cfg.MaxPaths, "maxpaths", 0, "path limit")
	fs.IntVar(&cfg.TimeoutS, "timeout", 0, "time limit in seconds")
	params := fs.String("params", "", "harness parameters, e.g. L=3,H=2")
	fs.IntVar(&cfg.SchedBudget, "sched", 0, "free scheduling choices explored per path (0 = all)")
	stubs := fs.String("stubs", "", "stub models, e.g. '(*pkg.T).M=harnessFn,...'")
	workers := fs.Int("workers", runtime.NumCPU(), "parallel workers")
	solver := fs.String("solver", "z3", "z3 | z3-new | cvc5")
	qto := fs.Int("qtimeout", 60000, "per-query timeout ms")
	jsonOut := fs.Bool("json", false, "print JSON")
	fs.Parse(args)
	if *stubs != "" {
		cfg.Stubs = map[string]string{}
		for _, kv := range strings.Split(*stubs, ",") {
			if i := strings.LastIndex(kv, "="); i > 0 {
				cfg.Stubs[kv[:i]] = kv[i+1:]
			}
		}
	}
	if *params != "" {
		cfg.Params = map[string]int{}
		for _, kv := range strings.Split(*params, ",") {
			var k string
			var v int
			if i := strings.Index(kv, "="); i > 0 {
				k = kv[:i]
				fmt.Sscan(kv[i+1:], &v)
				cfg.Params[k] = v
			}
		}
	}
	P, err := LoadProgram([]string{cfg.Pkg})
	if err != nil {
		fmt.Fprintln(os.Stderr, "load:", err)
		os.Exit(2)
	}
	res := Explore(P, cfg, *workers, *solver, *qto)
	if *jsonOut {
		b, _ := json.MarshalIndent(res, "", " ")
		fmt.Println(string(b))
		return
	}
	printResult(res)
}

func printResult(res *RunResult) {
	fmt.Printf("harness %s.%s: paths=%d infeasible=%d decisions=%d steps=%d obligations=%d discharged=%d queries=%d (sat %d unsat %d unknown %d) solver=%.1fs wall=%.1fs maxthreads=%d\n",
		res.Cfg.Pkg, res.Cfg.Entry, res.Paths, res.Infeasible, res.Decisions, res.Steps, res.Obligations, res.Discharged,
		res.Queries, res.SatN, res.UnsatN, res.UnknownN, res.SolverTime.Seconds(), res.Wall.Seconds(), res.MaxThreads)
	var cl []string
	for l, n := range res.Covers {
		cl = append(cl, fmt.Sprintf("%s=%d", l, n))
	}
	sort.Strings(cl)
	fmt.Println("  covers:", strings.Join(cl, " "))
	for _, s := range res.Inconclusive {
		fmt.Println("  INCONCLUSIVE:", s)
	}
	for _, v := range res.Violations {
		b, _ := json.Marshal(v.Inputs)
		fmt.Printf("  VIOLATION [%s] %s\n    at %s\n    inputs %s\n", v.Kind, v.Msg, v.Where, string(b))
		for _, e := range v.Trace {
			fmt.Println("      ev:", e)
		}
	}
}
