package main

import (
	"fmt"
	"go/types"
	"net/url"
	"strings"
	"time"

	"golang.org/x/tools/go/ssa"
)

type intrinsic func(ex *Exec, th *Thread, caller *Frame, args []Value, res *ssa.Call, finish func(Value)) bool

var intrinsics map[string]intrinsic

const timeBase = int64(1) << 50 // "now" is never the zero time

func (ex *Exec) timeVal(ns int64) Value {
	c := ex.ctx
	return &StructVal{f: []Value{c.Const(64, 0), c.Const(64, uint64(timeBase+ns)), Ptr{}}}
}

func timeNs(v Value) *Term { return v.(*StructVal).f[1].(*Term) }

func (ex *Exec) concreteDur(v Value, what string) int64 {
	t := v.(*Term)
	if !t.IsConst() {
		panic(ex.unsupported("symbolic duration in " + what))
	}
	return t.SVal()
}

// fieldByName finds the index of a struct field.
func fieldIndex(t types.Type, name string) int {
	st := t.Underlying().(*types.Struct)
	for i := 0; i < st.NumFields(); i++ {
		if st.Field(i).Name() == name {
			return i
		}
	}
	return -1
}

func (ex *Exec) fieldPtr(p Ptr, name string) Ptr {
	ex.nilCheck(p, "field "+name)
	var t types.Type = p.obj.typ
	// navigate type along path
	for _, i := range p.path {
		switch u := t.Underlying().(type) {
		case *types.Struct:
			t = u.Field(i).Type()
		case *types.Array:
			t = u.Elem()
		}
	}
	idx := fieldIndex(t, name)
	if idx < 0 {
		panic(ex.unsupported("no field " + name + " in " + t.String()))
	}
	return Ptr{obj: p.obj, path: append(append([]int(nil), p.path...), idx)}
}

func (ex *Exec) errorVal(msg string) Value {
	eo := ex.newObject(nil, &StructVal{f: []Value{ex.constStr(msg)}})
	return IfaceVal{t: opaqueErrType(ex.P), v: Ptr{obj: eo}}
}

func (ex *Exec) lockBlocked(th *Thread, pred func() bool) {
	th.state = Blocked
	th.waitPred = pred
	ex.cur = nil
}

func init() {
	intrinsics = map[string]intrinsic{}
	I := intrinsics

	// ----- sync.Mutex / RWMutex -----
	lock := func(ex *Exec, th *Thread, caller *Frame, args []Value, res *ssa.Call, finish func(Value)) bool {
		m := ex.mutexOf(args[0].(Ptr))
		free := func() bool { return m.writer == nil && len(m.readers) == 0 }
		if !free() {
			if m.writer == th {
				ex.violationHere("deadlock", "recursive lock of a mutex by the same goroutine")
				panic(pathEnd{"violated", "self-deadlock"})
			}
			ex.lockBlocked(th, free)
			return true
		}
		if ex.schedPoint(th) {
			return true
		}
		m.writer = th
		th.held = append(th.held, heldLock{m, true})
		finish(nil)
		return true
	}
	unlock := func(ex *Exec, th *Thread, caller *Frame, args []Value, res *ssa.Call, finish func(Value)) bool {
		m := ex.mutexOf(args[0].(Ptr))
		if m.writer == nil {
			ex.violationHere("mutex", "unlock of unlocked mutex")
			panic(pathEnd{"violated", "unlock of unlocked mutex"})
		}
		removeHeld(m.writer, m)
		m.writer = nil
		finish(nil)
		ex.schedPointAfter(th)
		return true
	}
	I["(*sync.Mutex).Lock"] = lock
	I["(*sync.Mutex).Unlock"] = unlock
	tryLock := func(ex *Exec, th *Thread, caller *Frame, args []Value, res *ssa.Call, finish func(Value)) bool {
		m := ex.mutexOf(args[0].(Ptr))
		if ex.schedPoint(th) {
			return true
		}
		if m.writer != nil || len(m.readers) > 0 {
			finish(ex.ctx.False)
			return true
		}
		m.writer = th
		th.held = append(th.held, heldLock{m, true})
		finish(ex.ctx.True)
		return true
	}
	I["(*sync.Mutex).TryLock"] = tryLock
	I["(*sync.RWMutex).TryLock"] = tryLock
	I["(*sync.RWMutex).Lock"] = lock
	I["(*sync.RWMutex).Unlock"] = unlock
	I["(*sync.RWMutex).RLock"] = func(ex *Exec, th *Thread, caller *Frame, args []Value, res *ssa.Call, finish func(Value)) bool {
		m := ex.mutexOf(args[0].(Ptr))
		free := func() bool { return m.writer == nil }
		if !free() {
			ex.lockBlocked(th, free)
			return true
		}
		if ex.schedPoint(th) {
			return true
		}
		m.readers[th]++
		th.held = append(th.held, heldLock{m, false})
		finish(nil)
		return true
	}
	I["(*sync.RWMutex).RUnlock"] = func(ex *Exec, th *Thread, caller *Frame, args []Value, res *ssa.Call, finish func(Value)) bool {
		m := ex.mutexOf(args[0].(Ptr))
		// any reader may unlock
		var who *Thread
		if m.readers[th] > 0 {
			who = th
		} else {
			for t := range m.readers {
				who = t
			}
		}
		if who == nil {
			ex.violationHere("mutex", "RUnlock of unlocked RWMutex")
			panic(pathEnd{"violated", "RUnlock of unlocked RWMutex"})
		}
		m.readers[who]--
		if m.readers[who] == 0 {
			delete(m.readers, who)
		}
		removeHeld(who, m)
		finish(nil)
		ex.schedPointAfter(th)
		return true
	}

	// ----- sync/atomic -----
	atomicLoad := func(ex *Exec, th *Thread, caller *Frame, args []Value, res *ssa.Call, finish func(Value)) bool {
		if ex.schedPoint(th) {
			return true
		}
		finish(ex.loadAtomic(args[0].(Ptr)))
		return true
	}
	atomicStore := func(ex *Exec, th *Thread, caller *Frame, args []Value, res *ssa.Call, finish func(Value)) bool {
		if ex.schedPoint(th) {
			return true
		}
		ex.storeAtomic(args[0].(Ptr), args[1])
		finish(nil)
		return true
	}
	atomicAdd := func(ex *Exec, th *Thread, caller *Frame, args []Value, res *ssa.Call, finish func(Value)) bool {
		if ex.schedPoint(th) {
			return true
		}
		p := args[0].(Ptr)
		nv := ex.ctx.Bin(OpAdd, ex.loadAtomic(p).(*Term), args[1].(*Term))
		ex.storeAtomic(p, nv)
		finish(nv)
		return true
	}
	atomicCAS := func(ex *Exec, th *Thread, caller *Frame, args []Value, res *ssa.Call, finish func(Value)) bool {
		if ex.schedPoint(th) {
			return true
		}
		p := args[0].(Ptr)
		old := ex.loadAtomic(p)
		eq := ex.valEq(old, args[1])
		if ex.branch(eq) {
			ex.storeAtomic(p, args[2])
			finish(ex.ctx.True)
		} else {
			finish(ex.ctx.False)
		}
		return true
	}
	for _, t := range []string{"Int32", "Int64", "Uint32", "Uint64", "Uintptr", "Pointer"} {
		I["sync/atomic.Load"+t] = atomicLoad
		I["sync/atomic.Store"+t] = atomicStore
		I["sync/atomic.Add"+t] = atomicAdd
		I["sync/atomic.CompareAndSwap"+t] = atomicCAS
	}

	// ----- sync.Pool -----
	I["(*sync.Pool).Get"] = func(ex *Exec, th *Thread, caller *Frame, args []Value, res *ssa.Call, finish func(Value)) bool {
		p := args[0].(Ptr)
		key := ptrKey(p)
		if ex.cfg.PoolReuse {
			if l := ex.pools[key]; len(l) > 0 {
				d := ex.decide(len(l)+1, "pool", nil)
				if d > 0 {
					v := l[d-1]
					ex.pools[key] = append(append([]Value(nil), l[:d-1]...), l[d:]...)
					finish(v)
					return true
				}
			}
		}
		nf, _ := ex.load(ex.fieldPtr(p, "New")).(*FuncVal)
		if nf == nil {
			finish(IfaceVal{})
			return true
		}
		ex.callFunc(th, nf, nil, finish)
		return true
	}
	I["(*sync.Pool).Put"] = func(ex *Exec, th *Thread, caller *Frame, args []Value, res *ssa.Call, finish func(Value)) bool {
		if ex.cfg.PoolReuse {
			key := ptrKey(args[0].(Ptr))
			ex.pools[key] = append(ex.pools[key], args[1])
		}
		finish(nil)
		return true
	}

	// ----- time -----
	I["time.Now"] = func(ex *Exec, th *Thread, caller *Frame, args []Value, res *ssa.Call, finish func(Value)) bool {
		finish(ex.timeVal(ex.clock))
		return true
	}
	I["time.Since"] = func(ex *Exec, th *Thread, caller *Frame, args []Value, res *ssa.Call, finish func(Value)) bool {
		c := ex.ctx
		finish(c.Sub(c.I64(timeBase+ex.clock), timeNs(args[0])))
		return true
	}
	I["time.Until"] = func(ex *Exec, th *Thread, caller *Frame, args []Value, res *ssa.Call, finish func(Value)) bool {
		c := ex.ctx
		finish(c.Sub(timeNs(args[0]), c.I64(timeBase+ex.clock)))
		return true
	}
	I["(time.Time).Add"] = func(ex *Exec, th *Thread, caller *Frame, args []Value, res *ssa.Call, finish func(Value)) bool {
		c := ex.ctx
		t := copyVal(args[0]).(*StructVal)
		t.f[1] = c.Add(timeNs(args[0]), args[1].(*Term))
		finish(t)
		return true
	}
	I["(time.Time).Sub"] = func(ex *Exec, th *Thread, caller *Frame, args []Value, res *ssa.Call, finish func(Value)) bool {
		finish(ex.ctx.Sub(timeNs(args[0]), timeNs(args[1])))
		return true
	}
	I["(time.Time).Before"] = func(ex *Exec, th *Thread, caller *Frame, args []Value, res *ssa.Call, finish func(Value)) bool {
		finish(ex.ctx.Slt(timeNs(args[0]), timeNs(args[1])))
		return true
	}
	I["(time.Time).After"] = func(ex *Exec, th *Thread, caller *Frame, args []Value, res *ssa.Call, finish func(Value)) bool {
		finish(ex.ctx.Slt(timeNs(args[1]), timeNs(args[0])))
		return true
	}
	I["(time.Time).IsZero"] = func(ex *Exec, th *Thread, caller *Frame, args []Value, res *ssa.Call, finish func(Value)) bool {
		finish(ex.ctx.Eq(timeNs(args[0]), ex.ctx.I64(0)))
		return true
	}
	I["time.After"] = func(ex *Exec, th *Thread, caller *Frame, args []Value, res *ssa.Call, finish func(Value)) bool {
		d := ex.concreteDur(args[0], "time.After")
		ex.nextChan++
		ch := &ChanObj{id: ex.nextChan, cap: 1, elemT: res.Type().Underlying().(*types.Chan).Elem()}
		ch.timer = ex.addTimer(d, ch, nil)
		finish(ChanVal{ch})
		return true
	}
	I["time.AfterFunc"] = func(ex *Exec, th *Thread, caller *Frame, args []Value, res *ssa.Call, finish func(Value)) bool {
		d := ex.concreteDur(args[0], "time.AfterFunc")
		tm := ex.addTimer(d, nil, args[1].(*FuncVal))
		et := res.Type().(*types.Pointer).Elem()
		o := ex.newObject(et, ex.zero(et))
		tm.obj = o
		ex.timerObjs[o] = tm
		finish(Ptr{obj: o})
		return true
	}
	I["(*time.Timer).Stop"] = func(ex *Exec, th *Thread, caller *Frame, args []Value, res *ssa.Call, finish func(Value)) bool {
		p := args[0].(Ptr)
		ex.nilCheck(p, "Timer.Stop")
		tm := ex.timerObjs[p.obj]
		was := tm != nil && tm.active
		if tm != nil {
			tm.active = false
		}
		finish(ex.ctx.Bool(was))
		return true
	}
	I["time.Sleep"] = func(ex *Exec, th *Thread, caller *Frame, args []Value, res *ssa.Call, finish func(Value)) bool {
		// sleeping is modelled as a yield
		finish(nil)
		return true
	}
	I["(time.Duration).Seconds"] = func(ex *Exec, th *Thread, caller *Frame, args []Value, res *ssa.Call, finish func(Value)) bool {
		finish(float64(ex.concreteDur(args[0], "Duration.Seconds")) / 1e9)
		return true
	}
	I["(time.Duration).String"] = func(ex *Exec, th *Thread, caller *Frame, args []Value, res *ssa.Call, finish func(Value)) bool {
		finish(ex.constStr("<duration>"))
		return true
	}
	I["time.ParseDuration"] = func(ex *Exec, th *Thread, caller *Frame, args []Value, res *ssa.Call, finish func(Value)) bool {
		s, ok := args[0].(*StrVal).concrete()
		if !ok {
			panic(ex.unsupported("time.ParseDuration of symbolic string"))
		}
		d, err := time.ParseDuration(s)
		if err != nil {
			finish(Tuple{ex.ctx.I64(0), ex.errorVal("time: invalid duration")})
		} else {
			finish(Tuple{ex.ctx.I64(int64(d)), IfaceVal{}})
		}
		return true
	}

	// ----- fmt / errors -----
	I["fmt.Sprintf"] = func(ex *Exec, th *Thread, caller *Frame, args []Value, res *ssa.Call, finish func(Value)) bool {
		finish(ex.constStr("<fmt>"))
		return true
	}
	I["fmt.Sprint"] = I["fmt.Sprintf"]
	I["fmt.Sprintln"] = I["fmt.Sprintf"]
	I["fmt.Errorf"] = func(ex *Exec, th *Thread, caller *Frame, args []Value, res *ssa.Call, finish func(Value)) bool {
		finish(ex.errorVal("<fmt.Errorf>"))
		return true
	}
	I["fmt.Println"] = func(ex *Exec, th *Thread, caller *Frame, args []Value, res *ssa.Call, finish func(Value)) bool {
		finish(Tuple{ex.ctx.I64(0), IfaceVal{}})
		return true
	}
	I["fmt.Printf"] = I["fmt.Println"]
	I["errors.New"] = func(ex *Exec, th *Thread, caller *Frame, args []Value, res *ssa.Call, finish func(Value)) bool {
		s := "<error>"
		if cs, ok := args[0].(*StrVal).concrete(); ok {
			s = cs
		}
		finish(ex.errorVal(s))
		return true
	}

	// ----- strings / bytes -----
	indexStr := func(ex *Exec, th *Thread, caller *Frame, args []Value, res *ssa.Call, finish func(Value)) bool {
		s, sep := args[0].(*StrVal), args[1].(*StrVal)
		cs, ok := sep.concrete()
		if !ok || len(cs) != 1 {
			if hs, ok2 := s.concrete(); ok && ok2 {
				finish(ex.ctx.I64(int64(strings.Index(hs, cs))))
				return true
			}
			panic(ex.unsupported("strings.Index with non single-byte / symbolic separator"))
		}
		key := fmt.Sprintf("%p|%d|%d|%d", s.seq, s.len.id, s.maxLen, cs[0])
		if _, isSub := s.seq.(subSeq); isSub {
			ss := s.seq.(subSeq)
			key = fmt.Sprintf("%p|%d|%d|%d|%d", ss.base, ss.off.id, s.len.id, s.maxLen, cs[0])
		}
		if ls, isLog := s.seq.(logSeq); isLog {
			key = fmt.Sprintf("L%p|%d|%d|%d", ls.log, s.len.id, s.maxLen, cs[0])
		}
		if sq, isSym := s.seq.(symSeq); isSym {
			key = fmt.Sprintf("S%s|%d|%d|%d", sq.name, s.len.id, s.maxLen, cs[0])
		}
		if _, isC := s.seq.(constSeq); isC {
			key = ""
		}
		finish(ex.seqIndexByte(s.seq, s.len, s.maxLen, ex.ctx.Const(8, uint64(cs[0])), key))
		return true
	}
	I["strings.Index"] = indexStr
	I["strings.IndexByte"] = func(ex *Exec, th *Thread, caller *Frame, args []Value, res *ssa.Call, finish func(Value)) bool {
		s := args[0].(*StrVal)
		finish(ex.seqIndexByte(s.seq, s.len, s.maxLen, args[1].(*Term), ""))
		return true
	}
	I["strings.Contains"] = func(ex *Exec, th *Thread, caller *Frame, args []Value, res *ssa.Call, finish func(Value)) bool {
		return indexStr(ex, th, caller, args, res, func(v Value) {
			finish(ex.ctx.Sle(ex.ctx.I64(0), v.(*Term)))
		})
	}
	I["strings.Repeat"] = func(ex *Exec, th *Thread, caller *Frame, args []Value, res *ssa.Call, finish func(Value)) bool {
		finish(ex.constStr("<repeat>"))
		return true
	}
	I["strings.Join"] = func(ex *Exec, th *Thread, caller *Frame, args []Value, res *ssa.Call, finish func(Value)) bool {
		finish(ex.constStr("<join>"))
		return true
	}
	I["bytes.Equal"] = func(ex *Exec, th *Thread, caller *Frame, args []Value, res *ssa.Call, finish func(Value)) bool {
		a, b := args[0].(*SliceVal), args[1].(*SliceVal)
		sa, la := ex.byteSeqOf(a)
		sb, lb := ex.byteSeqOf(b)
		ma, mb := -1, -1
		if a.obj != nil {
			if m, ok := ex.maxOf[a.obj]; ok {
				ma = m
			}
		}
		if b.obj != nil {
			if m, ok := ex.maxOf[b.obj]; ok {
				mb = m
			}
		}
		finish(ex.seqEq(sa, la, ma, sb, lb, mb))
		return true
	}

	// ----- bytes.Buffer (as used for pooled packet buffers) -----
	I["(*bytes.Buffer).Grow"] = func(ex *Exec, th *Thread, caller *Frame, args []Value, res *ssa.Call, finish func(Value)) bool {
		c := ex.ctx
		p := args[0].(Ptr)
		n := args[1].(*Term)
		ex.require(c.Sle(c.I64(0), n), "panic", "bytes.Buffer.Grow: negative count")
		bufP := ex.fieldPtr(p, "buf")
		offP := ex.fieldPtr(p, "off")
		buf := ex.load(bufP).(*SliceVal)
		off := ex.load(offP).(*Term)
		for _, m := range ex.cfg.growMonitors {
			m(ex, n)
		}
		live := c.Sub(buf.len, off)
		newSize := c.Add(live, n)
		// capacity suffices: the real Grow reslices in place, so slices taken from an earlier use
		// of a pooled buffer alias what the next user writes (read offset 0, as after Reset)
		if buf.obj != nil && off.IsConst() && off.k == 0 {
			if ex.branch(c.Sle(c.Add(buf.len, n), buf.cap)) {
				finish(nil)
				return true
			}
		}
		ex.ctx.fresh++
		o := ex.newByteObject(newSize, symSeq{fmt.Sprintf("stale!%d", ex.ctx.fresh)})
		if buf.obj != nil {
			seq, _ := ex.byteSeqOf(&SliceVal{buf.obj, c.Add(buf.off, off), live, live})
			ex.bulkCopy(o, c.I64(0), seq, live)
		}
		ex.store(bufP, &SliceVal{o, c.I64(0), live, newSize})
		ex.store(offP, c.I64(0))
		finish(nil)
		return true
	}

	// ----- net/url, backoff -----
	I["net/url.ParseRequestURI"] = func(ex *Exec, th *Thread, caller *Frame, args []Value, res *ssa.Call, finish func(Value)) bool {
		s, ok := args[0].(*StrVal).concrete()
		if !ok {
			panic(ex.unsupported("url.ParseRequestURI of symbolic string"))
		}
		if _, err := url.ParseRequestURI(s); err != nil {
			finish(Tuple{Ptr{}, ex.errorVal("url: parse error")})
			return true
		}
		et := res.Type().(*types.Tuple).At(0).Type().(*types.Pointer).Elem()
		o := ex.newObject(et, ex.zero(et))
		finish(Tuple{Ptr{obj: o}, IfaceVal{}})
		return true
	}
	I["(*github.com/jpillora/backoff.Backoff).Duration"] = func(ex *Exec, th *Thread, caller *Frame, args []Value, res *ssa.Call, finish func(Value)) bool {
		finish(ex.load(ex.fieldPtr(args[0].(Ptr), "Min")))
		return true
	}

	// ----- sort -----
	I["sort.Slice"] = func(ex *Exec, th *Thread, caller *Frame, args []Value, res *ssa.Call, finish func(Value)) bool {
		iv := args[0].(IfaceVal)
		s := iv.v.(*SliceVal)
		less := args[1].(*FuncVal)
		if !s.len.IsConst() || (s.len.k > 0 && s.obj.bytes != nil) {
			panic(ex.unsupported("sort.Slice on symbolic-length or byte slice"))
		}
		n := int(s.len.k)
		if n < 2 {
			finish(nil)
			return true
		}
		av := s.obj.val.(*ArrayVal)
		off := int(s.off.k)
		// insertion sort with physical swaps; less(i,j) evaluated by nested execution
		callLess := func(i, j int) bool {
			var out Value
			done := false
			ex.callFunc(th, less, []Value{ex.ctx.I64(int64(i)), ex.ctx.I64(int64(j))}, func(r Value) { out = r; done = true })
			depth := len(th.frames)
			for !done {
				if th.state != Runnable {
					panic(ex.unsupported("sort.Slice comparison blocked"))
				}
				ex.step(th)
				_ = depth
			}
			return ex.branch(out.(*Term))
		}
		for i := 1; i < n; i++ {
			for j := i; j > 0 && callLess(j, j-1); j-- {
				av.e[off+j], av.e[off+j-1] = av.e[off+j-1], av.e[off+j]
			}
		}
		finish(nil)
		return true
	}

	// ----- unsafe cast in packet -----
	I["github.com/256dpi/gomqtt/packet.cast"] = func(ex *Exec, th *Thread, caller *Frame, args []Value, res *ssa.Call, finish func(Value)) bool {
		s := args[0].(*StrVal)
		o := ex.newByteObject(s.len, s.seq)
		if s.maxLen >= 0 {
			ex.maxOf[o] = s.maxLen
		}
		finish(&SliceVal{o, ex.ctx.I64(0), s.len, s.len})
		return true
	}
}

func (ex *Exec) loadAtomic(p Ptr) Value  { return ex.loadNoTrack(p) }
func (ex *Exec) storeAtomic(p Ptr, v Value) { ex.storeNoTrack(p, v) }

func (ex *Exec) loadNoTrack(p Ptr) Value {
	save := ex.noTrack
	ex.noTrack = true
	defer func() { ex.noTrack = save }()
	return ex.load(p)
}
func (ex *Exec) storeNoTrack(p Ptr, v Value) {
	save := ex.noTrack
	ex.noTrack = true
	defer func() { ex.noTrack = save }()
	ex.store(p, v)
}

// schedPointAfter: after a releasing operation other threads may want to run first.
func (ex *Exec) schedPointAfter(th *Thread) {
	// releasing operations are not pre-emption points by themselves; the next visible
	// operation of th is.
}
