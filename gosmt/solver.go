package main

// Incremental SMT solver process (z3 -in, z3-new -in, cvc5 --incremental).

import (
	"bufio"
	"fmt"
	"io"
	"os/exec"
	"strings"
	"time"
)

type SatResult int

const (
	Unsat SatResult = iota
	Sat
	Unknown
)

func (r SatResult) String() string {
	return [...]string{"unsat", "sat", "unknown"}[r]
}

type Solver struct {
	kind      string
	cmd       *exec.Cmd
	in        io.WriteCloser
	out       *bufio.Reader
	declared  map[string]bool
	declStack []map[string]bool // names declared per push level
	seen      map[uint32]bool
	seenStack [][]uint32
	Queries   int
	SatN      int
	UnsatN    int
	UnknownN  int
	Time      time.Duration
	timeoutMs int
	log       io.Writer
	Errors    int
	dead      bool
}

func NewSolver(kind string, timeoutMs int) (*Solver, error) {
	var cmd *exec.Cmd
	switch kind {
	case "z3":
		cmd = exec.Command("/usr/bin/z3", "-in")
	case "z3-new":
		cmd = exec.Command("z3-new", "-in")
	case "cvc5-int":
		cmd = exec.Command("cvc5", "--incremental", "--lang=smt2", "--solve-bv-as-int=sum", fmt.Sprintf("--tlimit-per=%d", timeoutMs))
	case "cvc5":
		cmd = exec.Command("cvc5", "--incremental", "--lang=smt2", fmt.Sprintf("--tlimit-per=%d", timeoutMs))
	default:
		return nil, fmt.Errorf("unknown solver %s", kind)
	}
	in, err := cmd.StdinPipe()
	if err != nil {
		return nil, err
	}
	out, err := cmd.StdoutPipe()
	if err != nil {
		return nil, err
	}
	cmd.Stderr = cmd.Stdout
	if err := cmd.Start(); err != nil {
		return nil, err
	}
	s := &Solver{kind: kind, cmd: cmd, in: in, out: bufio.NewReaderSize(out, 1<<16), timeoutMs: timeoutMs}
	s.Reset()
	return s, nil
}

func (s *Solver) send(line string) {
	if s.log != nil {
		fmt.Fprintln(s.log, line)
	}
	if _, err := io.WriteString(s.in, line+"\n"); err != nil {
		s.dead = true
	}
}

func (s *Solver) Reset() {
	s.send("(reset)")
	if s.kind != "cvc5" && s.kind != "cvc5-int" {
		s.send(fmt.Sprintf("(set-option :timeout %d)", s.timeoutMs))
	} else {
		s.send("(set-logic ALL)")
	}
	s.send("(set-option :produce-models true)")
	s.declared = map[string]bool{}
	s.declStack = nil
	s.seen = map[uint32]bool{}
	s.seenStack = nil
}

func (s *Solver) Close() {
	s.send("(exit)")
	s.in.Close()
	done := make(chan struct{})
	go func() { s.cmd.Wait(); close(done) }()
	select {
	case <-done:
	case <-time.After(2 * time.Second):
		s.cmd.Process.Kill()
	}
}

func (s *Solver) declare(t *Term) {
	var vars []*Term
	before := len(s.seen)
	_ = before
	var newSeen []uint32
	// collect with tracking of newly seen ids so that pop can forget them
	stack := []*Term{t}
	for len(stack) > 0 {
		n := stack[len(stack)-1]
		stack = stack[:len(stack)-1]
		if n == nil || s.seen[n.id] {
			continue
		}
		s.seen[n.id] = true
		newSeen = append(newSeen, n.id)
		if n.op == OpVar || n.op == OpApp {
			vars = append(vars, n)
		}
		if n.a != nil {
			stack = append(stack, n.a)
		}
		if n.b != nil {
			stack = append(stack, n.b)
		}
		if n.c != nil {
			stack = append(stack, n.c)
		}
	}
	if len(s.seenStack) > 0 {
		s.seenStack[len(s.seenStack)-1] = append(s.seenStack[len(s.seenStack)-1], newSeen...)
	}
	for _, v := range vars {
		if s.declared[v.name] {
			continue
		}
		s.declared[v.name] = true
		if len(s.declStack) > 0 {
			s.declStack[len(s.declStack)-1][v.name] = true
		}
		if v.op == OpApp {
			s.send(fmt.Sprintf("(declare-fun %s ((_ BitVec 64)) (_ BitVec 8))", smtName(v.name)))
		} else {
			s.send(fmt.Sprintf("(declare-fun %s () %s)", smtName(v.name), sortName(v.w)))
		}
	}
}

func (s *Solver) Assert(t *Term) {
	if t.IsTrue() {
		return
	}
	s.declare(t)
	s.send("(assert " + PrintTerm(t) + ")")
}

func (s *Solver) Push() {
	s.send("(push 1)")
	s.declStack = append(s.declStack, map[string]bool{})
	s.seenStack = append(s.seenStack, nil)
}

func (s *Solver) Pop() {
	s.send("(pop 1)")
	top := s.declStack[len(s.declStack)-1]
	s.declStack = s.declStack[:len(s.declStack)-1]
	for n := range top {
		delete(s.declared, n)
	}
	ids := s.seenStack[len(s.seenStack)-1]
	s.seenStack = s.seenStack[:len(s.seenStack)-1]
	for _, id := range ids {
		delete(s.seen, id)
	}
}

func (s *Solver) readLine() string {
	line, err := s.out.ReadString('\n')
	if err != nil {
		s.dead = true
		return "(error \"solver died\")"
	}
	return strings.TrimSpace(line)
}

func (s *Solver) Check() SatResult {
	start := time.Now()
	s.send("(check-sat)")
	s.Queries++
	var res SatResult = Unknown
	for {
		line := s.readLine()
		if line == "" {
			continue
		}
		if strings.HasPrefix(line, "(error") {
			s.Errors++
			if s.dead {
				break
			}
			continue
		}
		switch line {
		case "sat":
			res = Sat
		case "unsat":
			res = Unsat
		case "unknown", "timeout":
			res = Unknown
		default:
			// unexpected output: treat as inconclusive
			s.Errors++
			continue
		}
		break
	}
	s.Time += time.Since(start)
	if s.log != nil {
		fmt.Fprintf(s.log, "; -> %s in %.3fs\n", res, time.Since(start).Seconds())
	}
	switch res {
	case Sat:
		s.SatN++
	case Unsat:
		s.UnsatN++
	default:
		s.UnknownN++
	}
	return res
}

// CheckWith: is (assertions ∧ t) satisfiable?
func (s *Solver) CheckWith(t *Term) SatResult {
	if t.IsFalse() {
		return Unsat
	}
	s.Push()
	s.Assert(t)
	r := s.Check()
	s.Pop()
	return r
}

// readSexp reads one balanced s-expression from the solver output.
func (s *Solver) readSexp() string {
	var sb strings.Builder
	depth := 0
	started := false
	inBar := false
	for {
		ch, err := s.out.ReadByte()
		if err != nil {
			s.dead = true
			return sb.String()
		}
		sb.WriteByte(ch)
		if ch == '|' {
			inBar = !inBar
			continue
		}
		if inBar {
			continue
		}
		if ch == '(' {
			depth++
			started = true
		} else if ch == ')' {
			depth--
			if started && depth == 0 {
				return sb.String()
			}
		}
	}
}

// GetValues evaluates terms in the current model (after a Sat Check, before pop).
func (s *Solver) GetValues(ts []*Term) []uint64 {
	res := make([]uint64, len(ts))
	for i, t := range ts {
		if t.IsConst() {
			res[i] = t.k
			continue
		}
		s.declare(t)
		s.send("(get-value (" + PrintTerm(t) + "))")
		out := s.readSexp()
		res[i] = parseValue(out)
	}
	return res
}

// parseValue extracts the last literal (#x.., #b.., true, false) from a get-value answer.
func parseValue(out string) uint64 {
	out = strings.TrimSpace(out)
	// answer looks like ((<term> <value>))
	idx := strings.LastIndexAny(out, " \n\t")
	tok := strings.Trim(out[idx+1:], "()")
	if i := strings.LastIndex(out, "#x"); i >= 0 && i >= strings.LastIndex(out, "#b") {
		tok = strings.TrimRight(out[i:], ") \n")
	} else if i := strings.LastIndex(out, "#b"); i >= 0 {
		tok = strings.TrimRight(out[i:], ") \n")
	}
	switch {
	case strings.HasPrefix(tok, "#x"):
		var v uint64
		fmt.Sscanf(tok[2:], "%x", &v)
		return v
	case strings.HasPrefix(tok, "#b"):
		var v uint64
		for _, c := range tok[2:] {
			v = v<<1 | uint64(c-'0')
		}
		return v
	case tok == "true":
		return 1
	case tok == "false":
		return 0
	}
	if strings.HasSuffix(strings.TrimRight(out, ") \n"), "true") {
		return 1
	}
	return 0
}

// CheckFresh decides (pc ∧ t) from a clean solver state.
func (s *Solver) CheckFresh(pc []*Term, t *Term) SatResult {
	s.Reset()
	for _, a := range pc {
		s.Assert(a)
	}
	s.Assert(t)
	return s.Check()
}
