package main

import (
	"fmt"
	"go/types"

	"golang.org/x/tools/go/ssa"
)

// Value is one of:
//   *Term (bool / integer), float64, *StrVal, *SliceVal, Ptr, *StructVal, *ArrayVal,
//   MapVal, ChanVal, *FuncVal (nil = nil func), IfaceVal, Tuple, *RangeIter
type Value interface{}

type Tuple []Value

// ---------- byte sequences ----------

// ByteSeq is an immutable sequence of symbolic bytes indexed by a 64-bit term.
type ByteSeq interface {
	At(ex *Exec, i *Term) *Term
}

type constSeq []byte

func (s constSeq) At(ex *Exec, i *Term) *Term {
	c := ex.ctx
	if i.IsConst() {
		if i.k < uint64(len(s)) {
			return c.Const(8, uint64(s[i.k]))
		}
		return c.Const(8, 0)
	}
	// ite chain (small constants only in practice)
	r := c.Const(8, 0)
	for k := len(s) - 1; k >= 0; k-- {
		r = c.Ite(c.Eq(i, c.I64(int64(k))), c.Const(8, uint64(s[k])), r)
	}
	return r
}

type zeroSeq struct{}

func (zeroSeq) At(ex *Exec, i *Term) *Term { return ex.ctx.Const(8, 0) }

// symSeq: uninterpreted content  name(i)
type symSeq struct{ name string }

func (s symSeq) At(ex *Exec, i *Term) *Term { return ex.ctx.App(s.name, i) }

// subSeq: base shifted by off
type subSeq struct {
	base ByteSeq
	off  *Term
}

func (s subSeq) At(ex *Exec, i *Term) *Term { return s.base.At(ex, ex.ctx.Add(i, s.off)) }

func mkSub(ex *Exec, base ByteSeq, off *Term) ByteSeq {
	if off.IsConst() && off.k == 0 {
		return base
	}
	if b, ok := base.(subSeq); ok {
		return subSeq{b.base, ex.ctx.Add(b.off, off)}
	}
	if b, ok := base.(constSeq); ok && off.IsConst() {
		if off.k >= uint64(len(b)) {
			return constSeq(nil)
		}
		return b[off.k:]
	}
	return subSeq{base, off}
}

// catSeq: a (of length la) followed by b
type catSeq struct {
	a  ByteSeq
	la *Term
	b  ByteSeq
}

func (s catSeq) At(ex *Exec, i *Term) *Term {
	c := ex.ctx
	return c.Ite(c.Ult(i, s.la), s.a.At(ex, i), s.b.At(ex, c.Sub(i, s.la)))
}

// logSeq: snapshot of a byte object's write log
type logSeq struct{ log *LogEntry }

func (s logSeq) At(ex *Exec, i *Term) *Term { return readLog(ex, s.log, i) }

// LogEntry is one element of a persistent write log.
type LogEntry struct {
	prev *LogEntry
	kind int // 0 init, 1 store, 2 copy
	off  *Term
	val  *Term   // store
	src  ByteSeq // copy / init
	n    *Term   // copy length
	depth int
}

func readLog(ex *Exec, l *LogEntry, i *Term) *Term {
	c := ex.ctx
	// iterative walk collecting conditions, then build ite from the bottom
	type lvl struct {
		cond *Term
		val  *Term
	}
	var lv []lvl
	var base *Term
	for e := l; ; e = e.prev {
		if e == nil {
			base = c.Const(8, 0)
			break
		}
		if e.kind == 0 {
			base = e.src.At(ex, i)
			break
		}
		if e.kind == 1 {
			cond := c.Eq(i, e.off)
			if cond.IsTrue() {
				base = e.val
				break
			}
			if cond.IsFalse() {
				continue
			}
			lv = append(lv, lvl{cond, e.val})
			continue
		}
		// copy: off <= i < off+n
		var cond *Term
		rel := c.Sub(i, e.off)
		if e.off.IsConst() && e.off.k == 0 {
			cond = c.Ult(i, e.n)
		} else {
			cond = c.And(c.Ule(e.off, i), c.Ult(rel, e.n))
		}
		if cond.IsFalse() {
			continue
		}
		v := e.src.At(ex, rel)
		if cond.IsTrue() {
			base = v
			break
		}
		lv = append(lv, lvl{cond, v})
	}
	r := base
	for k := len(lv) - 1; k >= 0; k-- {
		r = c.Ite(lv[k].cond, lv[k].val, r)
	}
	return r
}

// ---------- strings ----------

type StrVal struct {
	seq    ByteSeq
	len    *Term // 64-bit
	maxLen int   // -1 = unknown bound
}

func (ex *Exec) constStr(s string) *StrVal {
	return &StrVal{seq: constSeq([]byte(s)), len: ex.ctx.I64(int64(len(s))), maxLen: len(s)}
}

func (s *StrVal) concrete() (string, bool) {
	if !s.len.IsConst() {
		return "", false
	}
	if cs, ok := s.seq.(constSeq); ok {
		n := int(s.len.k)
		if n <= len(cs) {
			return string(cs[:n]), true
		}
	}
	if s.len.k == 0 {
		return "", true
	}
	return "", false
}

// ---------- memory objects ----------

type Object struct {
	id    int
	typ   types.Type // element / allocated type
	val   Value      // cell objects: mutable tree (StructVal / ArrayVal / scalar)
	bytes *ByteMem   // byte objects
	label string
	// lockset tracking
	firstThr int
	cells    map[int]*lockCell
	exempt   bool // allocated by harness code
}

type ByteMem struct {
	size *Term
	log  *LogEntry
}

type Ptr struct {
	obj  *Object
	path []int
	bidx *Term // byte objects: index of the addressed byte (nil = whole object)
}

func (p Ptr) IsNil() bool { return p.obj == nil }

type SliceVal struct {
	obj           *Object // nil slice when nil
	off, len, cap *Term   // 64-bit
}

type StructVal struct{ f []Value }
type ArrayVal struct{ e []Value }

type MapObj struct {
	id      int
	keys    []Value
	vals    []Value
	keyT    types.Type
	valT    types.Type
	obj     *Object // identity for lockset
}
type MapVal struct{ m *MapObj }

type RangeIter struct {
	m     *MapObj
	keys  []Value
	pos   int
	str   *StrVal
}

type FuncVal struct {
	fn   *ssa.Function
	env  []Value
	name string // intrinsic/builtin name when fn == nil
}

type IfaceVal struct {
	t types.Type // nil = nil interface
	v Value
}

func (i IfaceVal) IsNil() bool { return i.t == nil }

type ChanObj struct {
	id     int
	cap    int
	buf    []Value
	closed bool
	elemT  types.Type
	timer  *Timer // time.After channel
}
type ChanVal struct{ c *ChanObj }

// ---------- zero values & copying ----------

func isByteKind(t types.Type) bool {
	b, ok := t.Underlying().(*types.Basic)
	return ok && (b.Kind() == types.Uint8 || b.Kind() == types.Int8)
}

func intWidth(t types.Type) (int, bool, bool) { // width, signed, ok
	b, ok := t.Underlying().(*types.Basic)
	if !ok {
		return 0, false, false
	}
	switch b.Kind() {
	case types.Bool, types.UntypedBool:
		return 0, false, true
	case types.Int8:
		return 8, true, true
	case types.Int16:
		return 16, true, true
	case types.Int32, types.UntypedRune:
		return 32, true, true
	case types.Int, types.Int64, types.UntypedInt:
		return 64, true, true
	case types.Uint8:
		return 8, false, true
	case types.Uint16:
		return 16, false, true
	case types.Uint32:
		return 32, false, true
	case types.Uint, types.Uint64, types.Uintptr:
		return 64, false, true
	}
	return 0, false, false
}

func (ex *Exec) zero(t types.Type) Value {
	c := ex.ctx
	switch u := t.Underlying().(type) {
	case *types.Basic:
		if u.Kind() == types.String || u.Kind() == types.UntypedString {
			return ex.constStr("")
		}
		if u.Kind() == types.Float64 || u.Kind() == types.Float32 || u.Kind() == types.UntypedFloat {
			return float64(0)
		}
		if u.Kind() == types.UnsafePointer {
			return Ptr{}
		}
		if u.Kind() == types.UntypedNil {
			return IfaceVal{}
		}
		w, _, ok := intWidth(t)
		if !ok {
			panic(ex.unsupported("zero value of basic type " + t.String()))
		}
		if w == 0 {
			return c.False
		}
		return c.Const(w, 0)
	case *types.Pointer:
		return Ptr{}
	case *types.Slice:
		z := c.I64(0)
		return &SliceVal{nil, z, z, z}
	case *types.Map:
		return MapVal{}
	case *types.Chan:
		return ChanVal{}
	case *types.Signature:
		return (*FuncVal)(nil)
	case *types.Interface:
		return IfaceVal{}
	case *types.Struct:
		sv := &StructVal{f: make([]Value, u.NumFields())}
		for i := range sv.f {
			sv.f[i] = ex.zero(u.Field(i).Type())
		}
		return sv
	case *types.Array:
		av := &ArrayVal{e: make([]Value, u.Len())}
		for i := range av.e {
			av.e[i] = ex.zero(u.Elem())
		}
		return av
	case *types.Tuple:
		tv := make(Tuple, u.Len())
		for i := range tv {
			tv[i] = ex.zero(u.At(i).Type())
		}
		return tv
	}
	panic(ex.unsupported("zero value of " + t.String()))
}

// copyVal deep-copies aggregates (struct/array values have value semantics).
func copyVal(v Value) Value {
	switch x := v.(type) {
	case *StructVal:
		n := &StructVal{f: make([]Value, len(x.f))}
		for i, f := range x.f {
			n.f[i] = copyVal(f)
		}
		return n
	case *ArrayVal:
		n := &ArrayVal{e: make([]Value, len(x.e))}
		for i, f := range x.e {
			n.e[i] = copyVal(f)
		}
		return n
	}
	return v
}

func (ex *Exec) newObject(t types.Type, v Value) *Object {
	ex.nextObj++
	return &Object{id: ex.nextObj, typ: t, val: v, firstThr: -1, exempt: ex.allocExempt()}
}

// allocExempt: objects allocated by harness code are not subject to the lockset check.
func (ex *Exec) allocExempt() bool {
	if !ex.cfg.Lockset || ex.curInstr == nil || ex.curInstr.Parent() == nil {
		return false
	}
	fn := ex.curInstr.Parent()
	if v, ok := ex.harnessFn[fn]; ok {
		return v
	}
	v := ex.isHarnessFn(fn)
	ex.harnessFn[fn] = v
	return v
}

func (ex *Exec) newByteObject(size *Term, init ByteSeq) *Object {
	ex.nextObj++
	o := &Object{id: ex.nextObj, firstThr: -1, exempt: ex.allocExempt()}
	o.bytes = &ByteMem{size: size}
	if init != nil {
		o.bytes.log = &LogEntry{kind: 0, src: init}
	}
	return o
}

func (o *Object) String() string {
	if o == nil {
		return "nil"
	}
	return fmt.Sprintf("obj#%d", o.id)
}
