package main

import (
	"time"
	"fmt"
	"go/constant"
	"go/token"
	"go/types"
	"sort"
	"strings"
	"sync"

	"golang.org/x/tools/go/ssa"
)

// ---------- shared, read-only program data ----------

type fnInfo struct {
	index map[ssa.Value]int
	n     int
}

type Program struct {
	prog     *ssa.Program
	pkgs     map[string]*ssa.Package // by import path
	initPkgs []*ssa.Package          // packages whose init is executed, dependency order
	infoMu   sync.Mutex
	infos    map[*ssa.Function]*fnInfo
	fset     *token.FileSet
	execInit map[*ssa.Package]bool
	kfClaim  sync.Map
}

func (p *Program) info(fn *ssa.Function) *fnInfo {
	p.infoMu.Lock()
	defer p.infoMu.Unlock()
	if fi, ok := p.infos[fn]; ok {
		return fi
	}
	fi := &fnInfo{index: map[ssa.Value]int{}}
	add := func(v ssa.Value) {
		fi.index[v] = fi.n
		fi.n++
	}
	for _, p := range fn.Params {
		add(p)
	}
	for _, fv := range fn.FreeVars {
		add(fv)
	}
	for _, b := range fn.Blocks {
		for _, ins := range b.Instrs {
			if v, ok := ins.(ssa.Value); ok {
				add(v)
			}
		}
	}
	p.infos[fn] = fi
	return fi
}

// ---------- per-path execution state ----------

type deferred struct {
	fn   *FuncVal
	args []Value
	// for invoke-mode defers
}

type Frame struct {
	fn       *ssa.Function
	info     *fnInfo
	locals   []Value
	block    *ssa.BasicBlock
	prev     *ssa.BasicBlock
	pc       int
	defers   []deferred
	result   ssa.Value        // call instruction in the caller receiving the result (nil: discard)
	onReturn func(ret Value)  // engine continuation (used by intrinsics that call back)
	loopCnt  map[*ssa.BasicBlock]int
	loopMark map[*ssa.BasicBlock]int
	retVal   Value
	returning bool
}

type ThreadState int

const (
	Runnable ThreadState = iota
	Blocked
	Done
)

type Thread struct {
	id        int
	frames    []*Frame
	state     ThreadState
	quiescing bool
	isMain    bool
	name      string
	held      []heldLock // locks currently held (for lockset)
	waitPred  func() bool
	noPreempt bool
	quiesced  bool
	// pending select resolution written by a rendezvous partner
	selResolved bool
	selIndex    int
	selValue    Value
	selOk       bool
	// pending simple recv/send completion by partner
	opDone  bool
	opValue Value
	opOk    bool
}

type Decision struct {
	Choice int
	N      int
	Kind   string
}

type InputVar struct {
	Tag   string
	Kind  string // "u8","u16","u32","u64","bool","int","bytes","string","choice","len","fail"
	Term  *Term  // scalar
	Len   *Term  // bytes/string length
	Name  string // UF name for bytes content
	Max   int
	Value int // concrete decisions (choice/len/fail)
}

type Violation struct {
	Kind    string `json:"kind"`
	Msg     string `json:"msg"`
	Where   string `json:"where"`
	Harness string `json:"harness"`
	Inputs  map[string]interface{} `json:"inputs"`
	Decisions []int `json:"decisions"`
	Trace   []string `json:"trace,omitempty"`
	Threaded bool `json:"threaded"`
}

type pathEnd struct {
	kind string // "done","infeasible","unsupported","unwind","deadlock","steps"
	msg  string
}

type Exec struct {
	P       *Program
	ctx     *Ctx
	solver  *Solver
	solver2 *Solver
	deadline time.Time    // harness time limit: past it every query is answered unknown (the run is inconclusive anyway)
	solver3 func() *Solver // last resort: a fresh solver of the primary kind with the full time budget
	fallbacks int
	cfg     *HarnessCfg
	entry   *ssa.Function

	prefix  []int
	trace   []Decision
	alts    [][]int // alternative prefixes discovered on this path

	pc       []*Term
	pcSent   int
	threads  []*Thread
	cur      *Thread
	globals  map[*ssa.Global]*Object
	nextObj  int
	nextMap  int
	nextChan int
	clock    int64
	timers   []*Timer
	mutexes  map[string]*MutexState
	onces    map[string]bool
	inputs   []*InputVar
	tagCount map[string]int
	covers   map[string]bool
	observes []string
	steps    int
	symBranches int
	preempts int
	sawUnknown bool
	violations []*Violation
	obligations int
	discharged  int
	fnsSeen  map[*ssa.Function]int
	events   []string // harness-visible event trace (for diagnostics)
	pools    map[string][]Value
	idxMemo  map[string]*Term
	threadedPath bool
	lockViol map[string]bool
	kfWitness []string
	kfModels  map[string]map[string]interface{}
	curInstr ssa.Instruction
	maxOf    map[*Object]int
	timerObjs map[*Object]*Timer
	noTrack  bool
	unsatCache map[uint32]bool
	faults   int
	schedChoices int
	idleTimers   int
	harnessFn map[*ssa.Function]bool
}

func (ex *Exec) unsupported(msg string) pathEnd {
	where := ""
	if ex.curInstr != nil {
		where = " at " + ex.P.fset.Position(ex.curInstr.Pos()).String()
		if ex.curInstr.Parent() != nil {
			where += " in " + ex.curInstr.Parent().String()
		}
	}
	return pathEnd{"unsupported", msg + where}
}

func (ex *Exec) where() string {
	if ex.cur == nil || len(ex.cur.frames) == 0 {
		return ""
	}
	var parts []string
	for i := len(ex.cur.frames) - 1; i >= 0 && len(parts) < 6; i-- {
		fr := ex.cur.frames[i]
		pos := ""
		if fr.block != nil && fr.pc < len(fr.block.Instrs) {
			p := ex.P.fset.Position(fr.block.Instrs[fr.pc].Pos())
			if p.IsValid() {
				pos = fmt.Sprintf("%s:%d", shortFile(p.Filename), p.Line)
			}
		}
		parts = append(parts, fr.fn.Name()+"@"+pos)
	}
	return strings.Join(parts, " < ")
}

func shortFile(f string) string {
	if i := strings.LastIndex(f, "/"); i >= 0 {
		j := strings.LastIndex(f[:i], "/")
		return f[j+1:]
	}
	return f
}

// ---------- path condition ----------

func (ex *Exec) assume(t *Term) {
	if t.IsTrue() {
		return
	}
	ex.pc = append(ex.pc, t)
}

func (ex *Exec) flush() {
	for ; ex.pcSent < len(ex.pc); ex.pcSent++ {
		ex.solver.Assert(ex.pc[ex.pcSent])
	}
}

func (ex *Exec) feasible(t *Term) SatResult {
	if t.IsTrue() {
		return Sat
	}
	if t.IsFalse() {
		return Unsat
	}
	if ex.unsatCache[t.id] {
		return Unsat
	}
	r := ex.checkWith(t)
	if r == Unknown {
		ex.sawUnknown = true
	}
	if r == Unsat {
		ex.unsatCache[t.id] = true
	}
	return r
}

// checkWith asks the primary solver; on unknown/timeout the fallback solver decides
// the same query from scratch (path condition re-asserted).
func (ex *Exec) checkWith(t *Term) SatResult {
	if !ex.deadline.IsZero() && time.Now().After(ex.deadline) {
		// abandon the path: answering "unknown" would let it wander into infeasible branches
		panic(pathEnd{"timeout", "harness time limit reached inside a path"})
	}
	ex.flush()
	r := ex.solver.CheckWith(t)
	if r == Unknown && ex.solver2 != nil {
		ex.fallbacks++
		r = ex.solver2.CheckFresh(ex.pc, t)
	}
	if r == Unknown && ex.solver3 != nil {
		if s3 := ex.solver3(); s3 != nil {
			r = s3.CheckFresh(ex.pc, t)
		}
	}
	return r
}

// decide records an n-way decision. feas(i) reports feasibility (nil = all feasible).
func (ex *Exec) decide(n int, kind string, feas func(i int) bool) int {
	pos := len(ex.trace)
	if pos < len(ex.prefix) {
		d := ex.prefix[pos]
		ex.trace = append(ex.trace, Decision{d, n, kind})
		return d
	}
	first := -1
	for i := 0; i < n; i++ {
		if feas != nil && !feas(i) {
			continue
		}
		if first < 0 {
			first = i
			continue
		}
		alt := make([]int, pos+1)
		for k := 0; k < pos; k++ {
			alt[k] = ex.trace[k].Choice
		}
		alt[pos] = i
		ex.alts = append(ex.alts, alt)
	}
	if first < 0 {
		panic(pathEnd{"infeasible", "no feasible alternative"})
	}
	ex.trace = append(ex.trace, Decision{first, n, kind})
	return first
}

// branch decides a symbolic boolean.
func (ex *Exec) branch(cond *Term) bool {
	if cond.IsConst() {
		return cond.k == 1
	}
	ex.symBranches++
	pos := len(ex.trace)
	if pos < len(ex.prefix) {
		d := ex.prefix[pos]
		ex.trace = append(ex.trace, Decision{d, 2, "br"})
		if d == 1 {
			ex.assume(cond)
			return true
		}
		ex.assume(ex.ctx.Not(cond))
		return false
	}
	var rt SatResult
	if ex.unsatCache[ex.ctx.Not(cond).id] {
		rt = Sat // the negation is known infeasible and the path condition is satisfiable
	} else {
		rt = ex.feasible(cond)
	}
	var rf SatResult
	if rt == Unsat {
		rf = Sat // path condition is satisfiable, so the other side must be
	} else {
		rf = ex.feasible(ex.ctx.Not(cond))
	}
	if rt != Unsat && rf != Unsat {
		alt := make([]int, pos+1)
		for k := 0; k < pos; k++ {
			alt[k] = ex.trace[k].Choice
		}
		alt[pos] = 0
		ex.alts = append(ex.alts, alt)
		ex.trace = append(ex.trace, Decision{1, 2, "br"})
		ex.assume(cond)
		return true
	}
	if rt != Unsat {
		ex.trace = append(ex.trace, Decision{1, 2, "br1"})
		ex.assume(cond)
		return true
	}
	ex.trace = append(ex.trace, Decision{0, 2, "br1"})
	ex.assume(ex.ctx.Not(cond))
	return false
}

// concretize forks over the feasible values lo..hi of a term.
func (ex *Exec) concretize(t *Term, lo, hi int64, what string) int64 {
	if t.IsConst() {
		return t.SVal()
	}
	if hi-lo > 64 {
		panic(ex.unsupported(fmt.Sprintf("cannot concretize %s over %d..%d", what, lo, hi)))
	}
	c := ex.ctx
	for v := lo; v <= hi; v++ {
		if v == hi {
			ex.assume(c.Eq(t, c.Const(t.w, uint64(v))))
			return v
		}
		if ex.branch(c.Eq(t, c.Const(t.w, uint64(v)))) {
			return v
		}
	}
	panic(pathEnd{"infeasible", "concretize"})
}

// require is an obligation: cond must hold on every input of this path.
func (ex *Exec) require(cond *Term, kind, msg string) {
	if cond.IsTrue() {
		return
	}
	ex.obligations++
	neg := ex.ctx.Not(cond)
	r := ex.feasible(neg)
	switch r {
	case Unsat:
		ex.discharged++
		return
	case Unknown:
		ex.assume(cond)
		return
	}
	// violation: extract a model
	ex.recordViolation(neg, kind, msg)
	// continue under the assumption that the obligation holds (other inputs)
	if cond.IsFalse() || ex.feasible(cond) == Unsat {
		panic(pathEnd{"violated", msg})
	}
	ex.assume(cond)
}

// ---------- operands ----------

func (ex *Exec) get(fr *Frame, v ssa.Value) Value {
	switch x := v.(type) {
	case *ssa.Const:
		return ex.constVal(x)
	case *ssa.Function:
		return &FuncVal{fn: x}
	case *ssa.Global:
		return Ptr{obj: ex.global(x)}
	case *ssa.Builtin:
		return &FuncVal{name: "builtin:" + x.Name()}
	}
	idx, ok := fr.info.index[v]
	if !ok {
		panic(ex.unsupported(fmt.Sprintf("unknown SSA value %s (%T)", v.Name(), v)))
	}
	return fr.locals[idx]
}

func (ex *Exec) set(fr *Frame, v ssa.Value, val Value) {
	fr.locals[fr.info.index[v]] = val
}

func (ex *Exec) constVal(k *ssa.Const) Value {
	t := k.Type()
	if k.Value == nil {
		return ex.zero(t)
	}
	c := ex.ctx
	switch u := t.Underlying().(type) {
	case *types.Basic:
		switch {
		case u.Info()&types.IsBoolean != 0:
			return c.Bool(constant.BoolVal(k.Value))
		case u.Info()&types.IsString != 0:
			return ex.constStr(constant.StringVal(k.Value))
		case u.Info()&types.IsFloat != 0:
			f, _ := constant.Float64Val(k.Value)
			return f
		case u.Info()&types.IsInteger != 0:
			w, _, _ := intWidth(t)
			if w == 0 {
				w = 64
			}
			if i, ok := constant.Int64Val(constant.ToInt(k.Value)); ok {
				return c.Const(w, uint64(i))
			}
			ui, _ := constant.Uint64Val(constant.ToInt(k.Value))
			return c.Const(w, ui)
		}
	}
	panic(ex.unsupported("constant of type " + t.String()))
}

func (ex *Exec) global(g *ssa.Global) *Object {
	if o, ok := ex.globals[g]; ok {
		return o
	}
	et := g.Type().(*types.Pointer).Elem()
	var o *Object
	if at, ok := et.Underlying().(*types.Array); ok && isByteKind(at.Elem()) {
		o = ex.newByteObject(ex.ctx.I64(at.Len()), zeroSeq{})
	} else {
		o = ex.newObject(et, ex.zero(et))
	}
	o.label = g.String()
	// globals of packages whose init is not executed: unique opaque errors
	if g.Pkg != nil && !ex.P.execInit[g.Pkg] {
		if types.Identical(et, types.Universe.Lookup("error").Type()) {
			eo := ex.newObject(nil, &StructVal{f: []Value{ex.constStr(g.String())}})
			o.val = IfaceVal{t: opaqueErrType(ex.P), v: Ptr{obj: eo}}
		}
	}
	ex.globals[g] = o
	return o
}

var opaqueErrOnce sync.Once
var opaqueErrT types.Type

func opaqueErrType(p *Program) types.Type {
	opaqueErrOnce.Do(func() {
		if pkg := p.prog.ImportedPackage("errors"); pkg != nil {
			if m := pkg.Members["errorString"]; m != nil {
				opaqueErrT = types.NewPointer(m.Type())
				return
			}
		}
		opaqueErrT = types.NewPointer(types.NewStruct(nil, nil))
	})
	return opaqueErrT
}

// ---------- pointers ----------

func ptrKey(p Ptr) string {
	var sb strings.Builder
	fmt.Fprintf(&sb, "%d", p.obj.id)
	for _, i := range p.path {
		fmt.Fprintf(&sb, "/%d", i)
	}
	return sb.String()
}

func (ex *Exec) nilCheck(p Ptr, what string) {
	if p.obj == nil {
		ex.violationHere("nil-deref", "nil pointer dereference ("+what+")")
		panic(pathEnd{"violated", "nil dereference"})
	}
}

func (ex *Exec) load(p Ptr) Value {
	ex.nilCheck(p, "load")
	if len(p.path) > 0 {
		ex.accessField(p.obj, p.path[0], false)
	} else {
		ex.access(p.obj, false)
	}
	if p.obj.bytes != nil {
		if p.bidx == nil {
			panic(ex.unsupported("load of whole byte array"))
		}
		return readLog(ex, p.obj.bytes.log, p.bidx)
	}
	v := p.obj.val
	for _, i := range p.path {
		switch x := v.(type) {
		case *StructVal:
			v = x.f[i]
		case *ArrayVal:
			if i >= len(x.e) {
				panic(ex.unsupported("load index out of array"))
			}
			v = x.e[i]
		default:
			panic(ex.unsupported(fmt.Sprintf("load path through %T", v)))
		}
	}
	return copyVal(v)
}

func (ex *Exec) store(p Ptr, val Value) {
	ex.nilCheck(p, "store")
	if len(p.path) > 0 {
		ex.accessField(p.obj, p.path[0], true)
	} else {
		ex.access(p.obj, true)
	}
	if p.obj.bytes != nil {
		if p.bidx == nil {
			panic(ex.unsupported("store of whole byte array"))
		}
		t, ok := val.(*Term)
		if !ok {
			panic(ex.unsupported("store non-term into byte object"))
		}
		bm := p.obj.bytes
		d := 0
		if bm.log != nil {
			d = bm.log.depth + 1
		}
		bm.log = &LogEntry{prev: bm.log, kind: 1, off: p.bidx, val: t, depth: d}
		return
	}
	val = copyVal(val)
	if len(p.path) == 0 {
		p.obj.val = val
		return
	}
	v := p.obj.val
	for k, i := range p.path {
		last := k == len(p.path)-1
		switch x := v.(type) {
		case *StructVal:
			if last {
				x.f[i] = val
				return
			}
			v = x.f[i]
		case *ArrayVal:
			if last {
				x.e[i] = val
				return
			}
			v = x.e[i]
		default:
			panic(ex.unsupported(fmt.Sprintf("store path through %T", v)))
		}
	}
}

// ---------- threads / frames ----------

func (ex *Exec) newThread(name string) *Thread {
	th := &Thread{id: len(ex.threads), name: name}
	ex.threads = append(ex.threads, th)
	if len(ex.threads) > 1 {
		ex.threadedPath = true
	}
	return th
}

func (ex *Exec) pushFrame(th *Thread, fn *ssa.Function, args []Value, env []Value, result ssa.Value) *Frame {
	if len(fn.Blocks) == 0 {
		panic(ex.unsupported("call of function without body: " + fn.String()))
	}
	if len(th.frames) > ex.cfg.MaxDepth {
		panic(pathEnd{"unwind", "recursion depth exceeded in " + fn.String()})
	}
	fi := ex.P.info(fn)
	fr := &Frame{fn: fn, info: fi, locals: make([]Value, fi.n), block: fn.Blocks[0], result: result}
	if len(args) != len(fn.Params) {
		panic(ex.unsupported(fmt.Sprintf("arity mismatch calling %s: %d args for %d params", fn, len(args), len(fn.Params))))
	}
	for i, p := range fn.Params {
		fr.locals[fi.index[p]] = args[i]
	}
	for i, fv := range fn.FreeVars {
		fr.locals[fi.index[fv]] = env[i]
	}
	th.frames = append(th.frames, fr)
	ex.fnsSeen[fn]++
	return fr
}

func (ex *Exec) top(th *Thread) *Frame { return th.frames[len(th.frames)-1] }

// popFrame returns from the top frame with the given value.
func (ex *Exec) popFrame(th *Thread, ret Value) {
	fr := ex.top(th)
	th.frames = th.frames[:len(th.frames)-1]
	if fr.onReturn != nil {
		fr.onReturn(ret)
		return
	}
	if len(th.frames) == 0 {
		th.state = Done
		return
	}
	caller := ex.top(th)
	if fr.result != nil {
		ex.set(caller, fr.result, ret)
	}
	// the caller's pc still points at the call instruction (or RunDefers)
	if _, isRD := caller.block.Instrs[caller.pc].(*ssa.RunDefers); isRD {
		return // stay on RunDefers until the list is empty
	}
	caller.pc++
}

// run executes the path until the main thread finishes.
func (ex *Exec) run() {
	main := ex.threads[0]
	for {
		if main.state == Done {
			return
		}
		th := ex.cur
		if th == nil || th.state != Runnable {
			th = ex.schedule()
			if th == nil {
				return
			}
			ex.cur = th
		}
		if th.isMain {
			ex.idleTimers = 0
		}
		ex.steps++
		if ex.steps > ex.cfg.MaxSteps {
			panic(pathEnd{"steps", "step limit exceeded"})
		}
		ex.step(th)
	}
}

func (ex *Exec) jump(fr *Frame, to *ssa.BasicBlock) {
	// loop bound: count symbolic iterations of back edges
	if to.Index <= fr.block.Index {
		if fr.loopCnt == nil {
			fr.loopCnt = map[*ssa.BasicBlock]int{}
			fr.loopMark = map[*ssa.BasicBlock]int{}
		}
		if fr.loopMark[to] != ex.symBranches {
			fr.loopMark[to] = ex.symBranches
			fr.loopCnt[to]++
			if fr.loopCnt[to] > ex.cfg.Unwind {
				panic(pathEnd{"unwind", fmt.Sprintf("unwinding bound %d exceeded in %s", ex.cfg.Unwind, fr.fn)})
			}
		}
	}
	fr.prev = fr.block
	fr.block = to
	fr.pc = 0
	// evaluate phis simultaneously
	var idx int = -1
	for i, p := range to.Preds {
		if p == fr.prev {
			idx = i
			break
		}
	}
	var vals []Value
	n := 0
	for _, ins := range to.Instrs {
		phi, ok := ins.(*ssa.Phi)
		if !ok {
			break
		}
		vals = append(vals, ex.get(fr, phi.Edges[idx]))
		n++
	}
	for i := 0; i < n; i++ {
		ex.set(fr, to.Instrs[i].(*ssa.Phi), vals[i])
	}
	fr.pc = n
}

func (ex *Exec) violationHere(kind, msg string) {
	ex.recordViolation(ex.ctx.True, kind, msg)
}

// sorted cover labels
func (ex *Exec) coverList() []string {
	var l []string
	for k := range ex.covers {
		l = append(l, k)
	}
	sort.Strings(l)
	return l
}
