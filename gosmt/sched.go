package main

import (
	"fmt"
	"go/types"
	"sort"

	"golang.org/x/tools/go/ssa"
)

// ---------- mutexes ----------

type MutexState struct {
	key     string
	obj     *Object
	writer  *Thread
	readers map[*Thread]int
}

func (ex *Exec) mutexOf(p Ptr) *MutexState {
	ex.nilCheck(p, "mutex")
	k := ptrKey(p)
	m, ok := ex.mutexes[k]
	if !ok {
		m = &MutexState{key: k, obj: p.obj, readers: map[*Thread]int{}}
		ex.mutexes[k] = m
	}
	return m
}

func removeHeld(th *Thread, m *MutexState) {
	for i := len(th.held) - 1; i >= 0; i-- {
		if th.held[i].m == m {
			th.held = append(th.held[:i], th.held[i+1:]...)
			return
		}
	}
}

// ---------- timers ----------

type Timer struct {
	id       int
	deadline int64
	ch       *ChanObj // time.After / NewTimer
	fn       *FuncVal // AfterFunc
	active   bool
	obj      *Object // *time.Timer object
}

func (ex *Exec) addTimer(d int64, ch *ChanObj, fn *FuncVal) *Timer {
	if d < 0 {
		d = 0
	}
	t := &Timer{id: len(ex.timers), deadline: ex.clock + d, ch: ch, fn: fn, active: true}
	ex.timers = append(ex.timers, t)
	return t
}

// fireTimer fires the earliest active timer; false if none.
func (ex *Exec) fireTimer() bool {
	var best *Timer
	for _, t := range ex.timers {
		if t.active && (best == nil || t.deadline < best.deadline) {
			best = t
		}
	}
	if best == nil {
		return false
	}
	ex.fire(best)
	return true
}

func (ex *Exec) fire(t *Timer) {
	t.active = false
	if t.deadline > ex.clock {
		ex.clock = t.deadline
	}
	ex.events = append(ex.events, fmt.Sprintf("timer#%d fires at %d", t.id, ex.clock))
	if t.ch != nil {
		if len(t.ch.buf) < t.ch.cap {
			t.ch.buf = append(t.ch.buf, ex.timeVal(ex.clock))
		}
		return
	}
	nt := ex.newThread("timer")
	ex.invoke(nt, nil, t.fn, nil, nil, false)
}

// ---------- channel operations ----------

// waiting description of a blocked thread = the instruction at its pc.
func (ex *Exec) pendingInstr(th *Thread) ssa.Instruction {
	if th.state != Blocked || len(th.frames) == 0 {
		return nil
	}
	fr := ex.top(th)
	return fr.block.Instrs[fr.pc]
}

// partner search: a thread blocked in a recv (or select with recv case) on ch.
func (ex *Exec) findReceiver(ch *ChanObj, self *Thread) (*Thread, int) {
	for _, t := range ex.threads {
		if t == self || t.state != Blocked || t.selResolved || t.opDone {
			continue
		}
		fr := ex.top(t)
		switch x := ex.pendingInstr(t).(type) {
		case *ssa.UnOp:
			if cv, ok := ex.get(fr, x.X).(ChanVal); ok && cv.c == ch {
				return t, -1
			}
		case *ssa.Select:
			for i, st := range x.States {
				if st.Dir == types.RecvOnly {
					if cv := ex.get(fr, st.Chan).(ChanVal); cv.c == ch {
						return t, i
					}
				}
			}
		}
	}
	return nil, 0
}

func (ex *Exec) findSender(ch *ChanObj, self *Thread) (*Thread, int) {
	for _, t := range ex.threads {
		if t == self || t.state != Blocked || t.selResolved || t.opDone {
			continue
		}
		fr := ex.top(t)
		switch x := ex.pendingInstr(t).(type) {
		case *ssa.Send:
			if cv := ex.get(fr, x.Chan).(ChanVal); cv.c == ch {
				return t, -1
			}
		case *ssa.Select:
			for i, st := range x.States {
				if st.Dir == types.SendOnly {
					if cv := ex.get(fr, st.Chan).(ChanVal); cv.c == ch {
						return t, i
					}
				}
			}
		}
	}
	return nil, 0
}

func (ex *Exec) canSend(ch *ChanObj, self *Thread) bool {
	if ch == nil {
		return false
	}
	if ch.closed {
		return true // will panic
	}
	if len(ch.buf) < ch.cap {
		return true
	}
	if ch.cap == 0 {
		t, _ := ex.findReceiver(ch, self)
		return t != nil
	}
	return false
}

func (ex *Exec) canRecv(ch *ChanObj, self *Thread) bool {
	if ch == nil {
		return false
	}
	if len(ch.buf) > 0 || ch.closed {
		return true
	}
	if ch.cap == 0 {
		t, _ := ex.findSender(ch, self)
		return t != nil
	}
	return false
}

// doSend performs a send that canSend approved.
func (ex *Exec) doSend(ch *ChanObj, v Value, self *Thread) {
	if ch.closed {
		ex.violationHere("chan", "send on closed channel")
		panic(pathEnd{"violated", "send on closed channel"})
	}
	if ch.cap == 0 {
		t, idx := ex.findReceiver(ch, self)
		ex.completeRecv(t, idx, v, true)
		return
	}
	ch.buf = append(ch.buf, v)
}

// completeRecv finishes the pending receive of blocked thread t with value v.
func (ex *Exec) completeRecv(t *Thread, selIdx int, v Value, ok bool) {
	if selIdx >= 0 {
		t.selResolved, t.selIndex, t.selValue, t.selOk = true, selIdx, v, ok
	} else {
		t.opDone, t.opValue, t.opOk = true, v, ok
	}
	t.state = Runnable
}

func (ex *Exec) doRecv(ch *ChanObj, self *Thread) (Value, bool) {
	if len(ch.buf) > 0 {
		v := ch.buf[0]
		ch.buf = ch.buf[1:]
		// a sender blocked on a full buffered channel gets enabled by itself (polling)
		return v, true
	}
	if ch.closed {
		return ex.zero(ch.elemT), false
	}
	// rendezvous with a blocked sender
	t, idx := ex.findSender(ch, self)
	fr := ex.top(t)
	var v Value
	if idx >= 0 {
		sel := ex.pendingInstr(t).(*ssa.Select)
		v = ex.get(fr, sel.States[idx].Send)
		t.selResolved, t.selIndex = true, idx
	} else {
		snd := ex.pendingInstr(t).(*ssa.Send)
		v = ex.get(fr, snd.X)
		t.opDone = true
	}
	t.state = Runnable
	return v, true
}

func (ex *Exec) send(th *Thread, fr *Frame, x *ssa.Send) {
	if th.opDone { // completed by a receiving partner
		th.opDone = false
		fr.pc++
		return
	}
	cv := ex.get(fr, x.Chan).(ChanVal)
	if !ex.canSend(cv.c, th) {
		ex.block(th)
		return
	}
	if ex.schedPoint(th) {
		return
	}
	ex.doSend(cv.c, ex.get(fr, x.X), th)
	fr.pc++
}

func (ex *Exec) recv(th *Thread, fr *Frame, x *ssa.UnOp) {
	c := ex.ctx
	finish := func(v Value, ok bool) {
		if x.CommaOk {
			ex.set(fr, x, Tuple{v, c.Bool(ok)})
		} else {
			ex.set(fr, x, v)
		}
		fr.pc++
	}
	if th.opDone {
		th.opDone = false
		finish(th.opValue, th.opOk)
		return
	}
	cv := ex.get(fr, x.X).(ChanVal)
	if !ex.canRecv(cv.c, th) {
		ex.block(th)
		return
	}
	if ex.schedPoint(th) {
		return
	}
	v, ok := ex.doRecv(cv.c, th)
	finish(v, ok)
}

func (ex *Exec) closeChan(cv ChanVal) {
	if cv.c == nil {
		ex.violationHere("chan", "close of nil channel")
		panic(pathEnd{"violated", "close of nil channel"})
	}
	if cv.c.closed {
		ex.violationHere("chan", "close of closed channel")
		panic(pathEnd{"violated", "close of closed channel"})
	}
	cv.c.closed = true
}

func (ex *Exec) selectOp(th *Thread, fr *Frame, x *ssa.Select) {
	c := ex.ctx
	// result tuple: (index int, recvOk bool, recv_0, ..., recv_n-1)
	mkResult := func(idx int, rv Value, rok bool) {
		res := Tuple{c.I64(int64(idx)), c.Bool(rok)}
		for i, st := range x.States {
			if st.Dir != types.RecvOnly {
				continue
			}
			if i == idx {
				res = append(res, rv)
			} else {
				res = append(res, ex.zero(st.Chan.Type().Underlying().(*types.Chan).Elem()))
			}
		}
		ex.set(fr, x, res)
		fr.pc++
	}
	if th.selResolved {
		th.selResolved = false
		mkResult(th.selIndex, th.selValue, th.selOk)
		return
	}
	var ready []int
	for i, st := range x.States {
		cv := ex.get(fr, st.Chan).(ChanVal)
		if st.Dir == types.SendOnly {
			if ex.canSend(cv.c, th) {
				ready = append(ready, i)
			}
		} else if ex.canRecv(cv.c, th) {
			ready = append(ready, i)
		}
	}
	if len(ready) == 0 {
		if !x.Blocking {
			mkResult(-1, nil, false)
			return
		}
		ex.block(th)
		return
	}
	if ex.schedPoint(th) {
		return
	}
	pick := ready[0]
	if len(ready) > 1 {
		pick = ready[ex.decide(len(ready), "select", nil)]
	}
	st := x.States[pick]
	cv := ex.get(fr, st.Chan).(ChanVal)
	if st.Dir == types.SendOnly {
		ex.doSend(cv.c, ex.get(fr, st.Send), th)
		mkResult(pick, nil, false)
		return
	}
	v, ok := ex.doRecv(cv.c, th)
	mkResult(pick, v, ok)
}

// ---------- blocking & scheduling ----------

func (ex *Exec) block(th *Thread) {
	th.state = Blocked
	ex.cur = nil
}

// ready reports whether blocked thread t could complete its pending operation now.
func (ex *Exec) ready(t *Thread) bool {
	if t.state == Runnable {
		return true
	}
	if t.state == Done {
		return false
	}
	if t.quiescing {
		return false // handled by the scheduler
	}
	if t.selResolved || t.opDone {
		return true
	}
	fr := ex.top(t)
	switch x := ex.pendingInstr(t).(type) {
	case *ssa.Send:
		return ex.canSend(ex.get(fr, x.Chan).(ChanVal).c, t)
	case *ssa.UnOp:
		return ex.canRecv(ex.get(fr, x.X).(ChanVal).c, t)
	case *ssa.Select:
		for _, st := range x.States {
			cv := ex.get(fr, st.Chan).(ChanVal)
			if st.Dir == types.SendOnly {
				if ex.canSend(cv.c, t) {
					return true
				}
			} else if ex.canRecv(cv.c, t) {
				return true
			}
		}
		return false
	case *ssa.Call, *ssa.RunDefers, *ssa.Defer, *ssa.Go:
		// blocked inside an intrinsic (mutex etc.): ask the wait predicate
		if t.waitPred != nil {
			return t.waitPred()
		}
		return true
	}
	return true
}

// enabledThreads lists threads that can run now (excluding quiescing ones).
func (ex *Exec) enabledThreads() []*Thread {
	var en []*Thread
	for _, t := range ex.threads {
		if t.state == Done || t.quiescing {
			continue
		}
		if ex.ready(t) {
			en = append(en, t)
		}
	}
	return en
}

// schedule picks the next thread when the current one cannot continue.
func (ex *Exec) schedule() *Thread {
	for {
		en := ex.enabledThreads()
		if len(en) > 0 {
			pick := en[0]
			if len(en) > 1 {
				if ex.cfg.SchedBudget == 0 || ex.schedChoices < ex.cfg.SchedBudget {
					ex.schedChoices++
					pick = en[ex.decide(len(en), "sched", nil)]
				} // else: budget used up, lowest thread id first
			}
			ex.wake(pick)
			return pick
		}
		// nobody enabled: wake a quiescing thread
		for _, t := range ex.threads {
			if t.quiescing && t.state != Done {
				t.quiescing = false
				ex.wake(t)
				return t
			}
		}
		// fire timers; a harness thread that stays blocked while timer after timer fires
		// (e.g. a reconnect loop that never notices a stop request) never returns either
		if ex.fireTimer() {
			if ex.threads[0].state == Blocked {
				ex.idleTimers++
				if ex.idleTimers > 200 {
					ex.violationHere("deadlock", "harness thread never continues although 200 timers fired: "+ex.blockedSummary())
					panic(pathEnd{"violated", "livelock"})
				}
			}
			continue
		}
		main := ex.threads[0]
		if main.state != Done {
			ex.violationHere("deadlock", "harness thread blocked forever: "+ex.blockedSummary())
			panic(pathEnd{"violated", "deadlock"})
		}
		return nil
	}
}

func (ex *Exec) wake(t *Thread) {
	if t.state == Blocked {
		t.state = Runnable
		t.waitPred = nil
	}
}

func (ex *Exec) blockedSummary() string {
	s := ""
	for _, t := range ex.threads {
		if t.state == Blocked && len(t.frames) > 0 {
			names := ""
			for i := len(t.frames) - 1; i >= 0 && i >= len(t.frames)-4; i-- {
				names += t.frames[i].fn.Name() + "<"
			}
			s += fmt.Sprintf("[T%d %s] ", t.id, names)
		}
	}
	return s
}

// schedPoint gives other threads a chance to run before a visible operation of th.
// Returns true if th was pre-empted (the instruction must then be retried later).
func (ex *Exec) schedPoint(th *Thread) bool {
	if th.noPreempt {
		th.noPreempt = false
		return false
	}
	if ex.preempts >= ex.cfg.Preempt {
		return false
	}
	var others []*Thread
	for _, t := range ex.threads {
		if t != th && t.state != Done && !t.quiescing && ex.ready(t) {
			others = append(others, t)
		}
	}
	if len(others) == 0 {
		return false
	}
	sort.Slice(others, func(i, j int) bool { return others[i].id < others[j].id })
	d := ex.decide(len(others)+1, "preempt", nil)
	if d == 0 {
		return false
	}
	ex.preempts++
	th.noPreempt = true // when resumed, perform the operation without asking again
	ex.wake(others[d-1])
	ex.cur = others[d-1]
	return true
}
