package main

import "sort"

// Linear normal form of 64-bit terms:  sum(coef_i * atom_i) + k   (mod 2^64).
// Used to canonicalise offset arithmetic and to decide comparisons syntactically.

type linForm struct {
	ids   []uint32 // sorted atom ids
	atoms map[uint32]*Term
	coef  map[uint32]int64
	k     uint64
}

func (c *Ctx) linOf(t *Term) *linForm {
	if l, ok := c.linCache[t.id]; ok {
		return l
	}
	var l *linForm
	switch {
	case t.op == OpConst:
		l = &linForm{k: t.k}
	case t.op == OpAdd:
		l = linAdd(c.linOf(t.a), c.linOf(t.b), 1)
	case t.op == OpSub:
		l = linAdd(c.linOf(t.a), c.linOf(t.b), -1)
	case t.op == OpNeg:
		l = linAdd(&linForm{}, c.linOf(t.a), -1)
	case t.op == OpMul && t.b.IsConst() && int64(t.b.k) > -(1<<20) && int64(t.b.k) < 1<<20:
		l = linAdd(&linForm{}, c.linOf(t.a), int64(t.b.k))
	case t.op == OpShl && t.b.IsConst() && t.b.k < 20:
		l = linAdd(&linForm{}, c.linOf(t.a), int64(1)<<t.b.k)
	default:
		l = &linForm{ids: []uint32{t.id}, atoms: map[uint32]*Term{t.id: t}, coef: map[uint32]int64{t.id: 1}}
	}
	if c.linCache == nil {
		c.linCache = map[uint32]*linForm{}
	}
	c.linCache[t.id] = l
	return l
}

// linAdd returns a + s*b.
func linAdd(a, b *linForm, s int64) *linForm {
	r := &linForm{atoms: map[uint32]*Term{}, coef: map[uint32]int64{}, k: a.k + uint64(s)*b.k}
	for id, t := range a.atoms {
		r.atoms[id] = t
		r.coef[id] = a.coef[id]
	}
	for id, t := range b.atoms {
		r.atoms[id] = t
		r.coef[id] += s * b.coef[id]
	}
	for id, co := range r.coef {
		if co == 0 {
			delete(r.coef, id)
			delete(r.atoms, id)
		}
	}
	for id := range r.coef {
		r.ids = append(r.ids, id)
	}
	sort.Slice(r.ids, func(i, j int) bool { return r.ids[i] < r.ids[j] })
	return r
}

const linBig = int64(1) << 61

// interval of the integer value sum(coef*atom)+k, ok=false when it cannot be bounded safely.
func (l *linForm) interval() (lo, hi int64, ok bool) {
	if l.k >= uint64(linBig) && l.k <= ^uint64(0)-uint64(linBig) {
		return 0, 0, false
	}
	lo, hi = int64(l.k), int64(l.k)
	for _, id := range l.ids {
		co := l.coef[id]
		a := l.atoms[id]
		if a.hi >= 1<<40 || co > 1<<20 || co < -(1<<20) {
			return 0, 0, false
		}
		alo, ahi := int64(a.lo), int64(a.hi)
		if co > 0 {
			lo += co * alo
			hi += co * ahi
		} else {
			lo += co * ahi
			hi += co * alo
		}
		if lo < -linBig || hi > linBig {
			return 0, 0, false
		}
	}
	return lo, hi, true
}

// fromLin builds the canonical term of a linear form (no further normalisation).
func (c *Ctx) fromLin(l *linForm) *Term {
	var acc *Term
	var negs []*Term
	for _, id := range l.ids {
		a := l.atoms[id]
		co := l.coef[id]
		var piece *Term
		switch {
		case co == 1:
			piece = a
		case co == -1:
			negs = append(negs, a)
			continue
		default:
			piece = c.mk(OpMul, 64, a, c.Const(64, uint64(co)), nil, 0, "")
		}
		if acc == nil {
			acc = piece
		} else {
			acc = c.mk(OpAdd, 64, acc, piece, nil, 0, "")
		}
	}
	if acc == nil {
		acc = c.Const(64, l.k)
		if len(negs) == 0 {
			return acc
		}
	} else if l.k != 0 {
		acc = c.mk(OpAdd, 64, acc, c.Const(64, l.k), nil, 0, "")
	}
	for _, n := range negs {
		acc = c.mk(OpSub, 64, acc, n, nil, 0, "")
	}
	if c.linCache == nil {
		c.linCache = map[uint32]*linForm{}
	}
	c.linCache[acc.id] = l
	if lo, hi, ok := l.interval(); ok && lo >= 0 {
		if uint64(lo) > acc.lo {
			acc.lo = uint64(lo)
		}
		if uint64(hi) < acc.hi {
			acc.hi = uint64(hi)
		}
	}
	return acc
}

// diffSign inspects b-a (as integers) for 64-bit terms whose values are below 2^63:
// returns (lo, hi, ok) of the difference.
func (c *Ctx) diffInterval(a, b *Term) (int64, int64, bool) {
	if a.w != 64 || a.hi >= 1<<62 || b.hi >= 1<<62 {
		return 0, 0, false
	}
	d := linAdd(c.linOf(b), c.linOf(a), -1)
	return d.interval()
}
