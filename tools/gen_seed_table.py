#!/usr/bin/env python3
"""Regenerate the table of DESIGN.md section 13.7 from /verif/seeded/*/meta.json."""
import json, os
rows = []
for d in sorted(os.listdir('/verif/seeded')):
    m = json.load(open(f'/verif/seeded/{d}/meta.json'))
    res = m['check_results']
    caught = [k for k, v in res.items() if v['exit'] == 1]
    line = ''
    for k, v in res.items():
        for l in v['lines']:
            if 'violation [' in l:
                line = l.strip()[:110]
                break
        if line:
            break
    rows.append((d, (m.get('summary') or '')[:150].replace('\n', ' ').replace('|', '/'),
                 ('yes (at f8891d8; no longer a violation after fix 07ab881)' if m.get('note_after_fix') else 'yes') if m['confirmed'] else ('no longer a violation after fix f8891d8' if m.get('note') else 'demo ok, suite flaky'), ','.join(caught) or '-', line.replace('|', '/')))
s = open('/verif/DESIGN.md').read()
i = s.find('| seed | change (by an independent')
j = s.find('\n\nMisses of the first evaluation')
tbl = ["| seed | change (by an independent sub-agent that saw only the property text) | confirmed | caught by (exit 1) | first counterexample line |", "|---|---|---|---|---|"]
for r in rows:
    tbl.append('| ' + ' | '.join(r) + ' |')
s = s[:i] + '\n'.join(tbl) + s[j:]
open('/verif/DESIGN.md', 'w').write(s)
print(len(rows), 'rows')
