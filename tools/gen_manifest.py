#!/usr/bin/env python3
"""Regenerates /verif/MANIFEST.json from checks/checks.json and tools/manifest_meta.json."""
import json, os
V='/verif'
props=[json.loads(l) for l in open(f'{V}/properties.jsonl')]
checks=json.load(open(f'{V}/checks/checks.json'))
meta=json.load(open(f'{V}/tools/manifest_meta.json'))
man={"version":1,
 "setup_cmd":"cd /verif/gosmt && GOFLAGS=-mod=mod GOPROXY=off GOSUMDB=off GOTOOLCHAIN=local go build -o /verif/bin/gosmt .",
 "hooks":{"guard":"verif","enable":"no hook is committed to /repo: harness files (/verif/harness/<pkg>/*.go, //go:build verif) are injected into the real packages by a go/packages overlay with -tags=verif (symbolic run) and by go test -overlay with -tags 'verif verifreplay' (native replay)","baseline_off_cmd":"cd /repo && GOFLAGS=-mod=mod go test -vet=off -count=1 -timeout 25m ./...","source_commits":[],"add_only":True},
 "engines":[{"name":"gosmt","path":"/verif/gosmt","serves_properties":sorted(checks.keys()),"kind_free_text":"own go/ssa -> SMT-LIB2 symbolic executor for Go (bit-vectors, write-log byte memory with symbolic lengths, maps, interfaces, goroutines/channels/mutexes with pre-emption bounding); cvc5 1.0.3 (--solve-bv-as-int=sum) decides, z3 5.1.0 as fallback, z3 5.1.0 + z3 4.8.12 cross-check in the thorough tier; counterexamples replayed natively with go test -overlay"}],
 "checks":[], "not_applicable":[], "notes":meta.get("notes","")}
for p in props:
    pid=p['id']
    if pid in checks and pid in meta['checks']:
        m=meta['checks'][pid]
        man['checks'].append({"property_id":pid,
          "quick_cmd":f"/verif/bin/gosmt check {pid} --tier quick",
          "thorough_cmd":f"/verif/bin/gosmt check {pid} --tier thorough",
          "evidence_file":f"/verif/evidence/{pid}.json",
          "replay_cmd_template":"/verif/bin/gosmt replay {path}",
          "engine":"gosmt",
          "level_claimed":{"category":"model_checking","text":m['text'],"design_ref":m.get('design_ref','DESIGN.md section 7')},
          "level_note":m['note'],
          "technique":m.get('technique',"bounded symbolic execution of the real Go SSA; SMT solver (cvc5/z3) decides every assertion per path; counterexamples replayed natively")})
    else:
        man['not_applicable'].append({"property_id":pid,"reason":meta['not_applicable'].get(pid,"check not built yet (work in progress)")})
json.dump(man,open(f'{V}/MANIFEST.json','w'),indent=1)
print("checks:",[c['property_id'] for c in man['checks']])
