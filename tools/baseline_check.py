#!/usr/bin/env python3
"""Runs the repository's test suite (guard off) and compares with /root/.vp/BASELINE.json stable_pass."""
import json, subprocess, os, sys
env=dict(os.environ, GOFLAGS='-mod=mod', GOPROXY='off', GOSUMDB='off', GOTOOLCHAIN='local')
p=subprocess.run(['go','test','-mod=mod','-json','-vet=off','-count=1','-timeout','25m','./...'],cwd='/repo',env=env,capture_output=True,text=True)
passed=set()
failed=set()
for line in p.stdout.splitlines():
    try: e=json.loads(line)
    except Exception: continue
    if e.get('Test') and e.get('Action') in ('pass','fail'):
        (passed if e['Action']=='pass' else failed).add(e['Package']+'::'+e['Test'])
base=json.load(open('/root/.vp/BASELINE.json'))
stable=set(base['stable_pass'])
missing=sorted(stable-passed)
print('stable_pass:',len(stable),'passed now:',len(passed&stable),'missing:',len(missing))
for m in missing[:40]: print('  MISSING',m, '(failed)' if m in failed else '')
sys.exit(1 if missing else 0)
