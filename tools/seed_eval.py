#!/usr/bin/env python3
"""Evaluate a seeded change produced by a sub-agent.

usage: seed_eval.py <id> [--tier quick|thorough] [--check <other property id> ...]

1. confirms, in a fresh scratch worktree of /repo, that the patch applies, compiles, passes the
   repository's stable suite, and that the demonstration fails with the patch and passes without;
2. applies the patch to /repo, runs the property's check, and undoes the patch;
3. stores patch.diff, the demonstration and meta.json under /verif/seeded/<id>/.
"""
import json, os, shutil, subprocess, sys, tempfile, time

ENV = dict(os.environ, GOFLAGS='-mod=mod', GOPROXY='off', GOSUMDB='off', GOTOOLCHAIN='local')
PKGS = ['./packet/', './topic/', './session/', './broker/', './client/...', './transport/...']


def run(cmd, cwd=None, timeout=1800):
    p = subprocess.run(cmd, cwd=cwd, env=ENV, capture_output=True, text=True, timeout=timeout)
    return p.returncode, p.stdout + p.stderr


def suite_ok(wt):
    rc, out = run(['go', 'test', '-json', '-vet=off', '-count=1', '-timeout', '20m'] + PKGS, cwd=wt)
    passed, failed = set(), set()
    for line in out.splitlines():
        try:
            e = json.loads(line)
        except Exception:
            continue
        if e.get('Test') and e.get('Action') in ('pass', 'fail'):
            (passed if e['Action'] == 'pass' else failed).add(e['Package'] + '::' + e['Test'])
    base = json.load(open('/root/.vp/BASELINE.json'))
    stable = {t for t in base['stable_pass'] if '/spec::' not in t and '/cmd/' not in t and 'zz_seed' not in t}
    stable = {t for t in stable if any(('/' + p.strip('./').replace('...', '').strip('/')) in t for p in PKGS)}
    missing = sorted(t for t in stable if t not in passed and 'SeedDemo' not in t)
    return len(missing) == 0, missing[:10]


def main():
    sid = sys.argv[1]
    tier = 'quick'
    checks = [sid]
    srcroot, suffix = '/tmp/seed', ''
    use_wt = False
    args = sys.argv[2:]
    while args:
        a = args.pop(0)
        if a == '--tier':
            tier = args.pop(0)
        elif a == '--check':
            checks.append(args.pop(0))
        elif a == '--src':
            srcroot = args.pop(0)
        elif a == '--suffix':
            suffix = args.pop(0)
        elif a == '--worktree':
            # run the check against a scratch worktree that carries the change (VERIF_REPO) instead of
            # patching /repo: for use while other checks are reading /repo; evidence goes to a scratch dir
            use_wt = True
    src = f'{srcroot}/{sid}'
    notes = json.load(open(f'{src}/notes.json'))
    patch = f'{src}/patch.diff'
    demo = f'{src}/zz_seed_demo_test.go'
    demo_pkg = notes['demo_pkg'].strip('./').rstrip('/')
    meta = {'property': sid, 'summary': notes.get('summary'), 'needs': notes.get('needs'), 'demo_pkg': demo_pkg, 'ran': []}

    wt = tempfile.mkdtemp(prefix='seedwt-')
    os.rmdir(wt)
    run(['git', '-C', '/repo', 'worktree', 'add', '--detach', wt, 'HEAD'])
    try:
        shutil.copy(demo, f'{wt}/{demo_pkg}/zz_seed_demo_test.go')
        if demo_pkg.startswith('transport'):
            # the transport tests load ../example.crt / ../example.key in an init function
            # (git-ignored files that are absent from the repository)
            run(['openssl', 'req', '-x509', '-newkey', 'rsa:2048', '-nodes', '-keyout', f'{wt}/example.key', '-out', f'{wt}/example.crt',
                 '-days', '2', '-subj', '/CN=localhost', '-addext', 'subjectAltName=DNS:localhost,IP:127.0.0.1'])
            ENV['SSL_CERT_FILE'] = f'{wt}/example.crt'
        democmd = ['go', 'test', '-vet=off', '-count=1', '-timeout', '300s', '-run', 'Seed|Demo|seed|demo', f'./{demo_pkg}/']
        if 'race' in notes.get('demo_cmd', ''):
            democmd.insert(2, '-race')
        rc0, out0 = run(democmd, cwd=wt)
        meta['demo_without_change'] = 'pass' if rc0 == 0 else 'FAIL'
        rc, out = run(['git', 'apply', patch], cwd=wt)
        meta['applies'] = rc == 0
        if rc != 0:
            meta['error'] = out[-500:]
        rc, out = run(['go', 'build', './...'], cwd=wt)
        meta['compiles'] = rc == 0
        rc1, out1 = run(democmd, cwd=wt)
        meta['demo_with_change'] = 'fail' if rc1 != 0 else 'PASS'
        os.remove(f'{wt}/{demo_pkg}/zz_seed_demo_test.go')
        ok, missing = suite_ok(wt)
        if not ok:  # timing-sensitive tests under load: one retry
            time.sleep(5)
            ok, missing = suite_ok(wt)
        meta['suite_passes_with_change'] = ok
        if not ok:
            meta['suite_missing'] = missing
        meta['ran'].append(' '.join(democmd) + ' (with and without the change, in a scratch worktree)')
    finally:
        run(['git', '-C', '/repo', 'worktree', 'remove', '--force', wt])
    valid = meta.get('applies') and meta.get('compiles') and meta['demo_without_change'] == 'pass' and meta['demo_with_change'] == 'fail' and meta['suite_passes_with_change']
    meta['confirmed'] = bool(valid)

    # run the checks against /repo with the change applied
    results = {}
    if use_wt:
        wt2 = tempfile.mkdtemp(prefix='seedchk-')
        os.rmdir(wt2)
        run(['git', '-C', '/repo', 'worktree', 'add', '--detach', wt2, 'HEAD'])
        try:
            rc, out = run(['git', 'apply', patch], cwd=wt2)
            if rc == 0:
                env2 = dict(ENV, VERIF_REPO=wt2, VERIF_EVIDENCE_DIR='/tmp/seed_evidence')
                for cid in checks:
                    t0 = time.time()
                    p2 = subprocess.run(['/verif/bin/gosmt', 'check', cid, '--tier', tier], cwd='/verif', env=env2, capture_output=True, text=True, timeout=7200)
                    out2 = p2.stdout + p2.stderr
                    lines = [l for l in out2.splitlines() if l.startswith('VIOLATION') or l.startswith('INCONCLUSIVE') or 'violation [' in l or 'native replay' in l or l.strip().startswith('at ')]
                    results[cid] = {'tier': tier, 'exit': p2.returncode, 'wall_s': round(time.time() - t0, 1), 'lines': lines[:16]}
                    meta['ran'].append(f'scratch worktree of /repo with patch.diff applied; VERIF_REPO=<worktree> /verif/bin/gosmt check {cid} --tier {tier}')
        finally:
            run(['git', '-C', '/repo', 'worktree', 'remove', '--force', wt2])
    else:
        rc, out = run(['git', '-C', '/repo', 'status', '--porcelain'])
        if out.strip():
            print('refusing: /repo has local changes')
            sys.exit(2)
        rc, out = run(['git', '-C', '/repo', 'apply', patch])
        try:
            if rc == 0:
                for cid in checks:
                    t0 = time.time()
                    rc2, out2 = run(['/verif/bin/gosmt', 'check', cid, '--tier', tier], cwd='/verif', timeout=7200)
                    lines = [l for l in out2.splitlines() if l.startswith('VIOLATION') or l.startswith('INCONCLUSIVE') or 'violation [' in l or 'native replay' in l or l.strip().startswith('at ')]
                    results[cid] = {'tier': tier, 'exit': rc2, 'wall_s': round(time.time() - t0, 1), 'lines': lines[:16]}
                    meta['ran'].append(f'git -C /repo apply patch.diff; /verif/bin/gosmt check {cid} --tier {tier}; git -C /repo checkout -- .')
        finally:
            run(['git', '-C', '/repo', 'checkout', '--', '.'])
            run(['git', '-C', '/repo', 'clean', '-fdq'])
    meta['check_results'] = results
    meta['caught'] = any(r['exit'] == 1 for r in results.values())
    dst = f'/verif/seeded/{sid}{suffix}'
    os.makedirs(dst, exist_ok=True)
    shutil.copy(patch, f'{dst}/patch.diff')
    shutil.copy(demo, f'{dst}/zz_seed_demo_test.go')
    json.dump(meta, open(f'{dst}/meta.json', 'w'), indent=1)
    print(json.dumps(meta, indent=1))


if __name__ == '__main__':
    main()
