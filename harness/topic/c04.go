//go:build verif

package topic

import "strings"

// Reference matcher written from MQTT 3.1.1 section 4.7: level by level, '+' = exactly one
// level, '#' (last level) = the parent level and any number of child levels, byte-exact
// comparison, empty levels are levels. It uses none of tree.go's helpers; separators are
// found with the same strings.Index primitive as the tree uses.
func refMatch(filter, name string) bool {
	for {
		var fl, nl string
		fi := strings.Index(filter, "/")
		if fi >= 0 {
			fl = filter[:fi]
		} else {
			fl = filter
		}
		if fl == "#" {
			return true
		}
		ni := strings.Index(name, "/")
		if ni >= 0 {
			nl = name[:ni]
		} else {
			nl = name
		}
		if fl != "+" && fl != nl {
			return false
		}
		if fi < 0 || ni < 0 {
			if fi < 0 && ni < 0 {
				return true
			}
			if ni < 0 {
				// the name ended: only a final "#" level may follow in the filter
				return filter[fi+1:] == "#"
			}
			return false
		}
		filter = filter[fi+1:]
		name = name[ni+1:]
	}
}

// validName: non-empty, no wildcard characters, no U+0000 (built without branching).
func validName(n string, max int) bool {
	ok := len(n) > 0
	for i := 0; i < max; i++ {
		c := vAt(n, i)
		in := i < len(n)
		ok = vAnd(ok, vOr(!in, vAnd(c != '+', vAnd(c != '#', c != 0))))
	}
	return ok
}

// validFilter: non-empty, no U+0000, '+' only as a whole level, '#' only as the whole last level.
func validFilter(f string, max int) bool {
	ok := len(f) > 0
	for i := 0; i < max; i++ {
		c := vAt(f, i)
		in := i < len(f)
		startsLevel := i == 0
		if i > 0 {
			startsLevel = vAt(f, i-1) == '/'
		}
		last := i == len(f)-1
		endsLevel := vOr(last, vAt(f, i+1) == '/')
		plusOK := vOr(c != '+', vAnd(startsLevel, endsLevel))
		hashOK := vOr(c != '#', vAnd(startsLevel, last))
		ok = vAnd(ok, vOr(!in, vAnd(c != 0, vAnd(plusOK, hashOK))))
	}
	return ok
}

func has(list []interface{}, v int) bool {
	for _, x := range list {
		if x == v {
			return true
		}
	}
	return false
}

// VerifC04Pair: one stored filter vs. one name, both directions, and the directions agree.
func VerifC04Pair() {
	L := vParam("L", 4)
	f := vString("filter", L)
	n := vString("name", L)
	vAssume(validFilter(f, L))
	vAssume(validName(n, L))
	want := refMatch(f, n)

	t := NewStandardTree()
	t.Add(f, 1)
	got := t.Match(n)
	first := t.MatchFirst(n)
	if want {
		vCover("c04-pair-match")
		vAssert(len(got) == 1, "Match returns the value stored under a matching filter, once")
		vAssert(first == 1, "MatchFirst returns the value")
	} else {
		vCover("c04-pair-nomatch")
		vAssert(len(got) == 0, "Match returns nothing for a filter that does not match")
		vAssert(first == nil, "MatchFirst returns nil when nothing matches")
	}

	s := NewStandardTree()
	s.Add(n, 1)
	got2 := s.Search(f)
	first2 := s.SearchFirst(f)
	if want {
		vAssert(len(got2) == 1, "Search returns the value stored under a matched name, once")
		vAssert(first2 == 1, "SearchFirst returns the value")
	} else {
		vAssert(len(got2) == 0, "Search returns nothing for a name the filter does not match")
		vAssert(first2 == nil, "SearchFirst returns nil when nothing matches")
	}
	vCover("c04-pair-end")
}

// VerifC04MatchSet: two stored filters (values possibly equal), one name.
func VerifC04MatchSet() {
	L := vParam("L", 3)
	f1 := vString("f1", L)
	f2 := vString("f2", L)
	n := vString("name", L)
	vAssume(validFilter(f1, L))
	vAssume(validFilter(f2, L))
	vAssume(validName(n, L))
	v2 := 1 + vChoice("v2", 2) // same value under both filters, or two values
	t := NewStandardTree()
	t.Add(f1, 1)
	t.Add(f2, v2)
	got := t.Match(n)
	m1 := refMatch(f1, n)
	m2 := refMatch(f2, n)
	want1 := m1 || (m2 && v2 == 1)
	want2 := m2 && v2 == 2
	cnt := 0
	if want1 {
		cnt++
	}
	if want2 {
		cnt++
	}
	vAssert(has(got, 1) == want1, "value 1 returned iff a filter holding it matches")
	vAssert(has(got, 2) == want2, "value 2 returned iff a filter holding it matches")
	vAssert(len(got) == cnt, "each value once")
	first := t.MatchFirst(n)
	if cnt == 0 {
		vAssert(first == nil, "MatchFirst nil iff the set is empty")
	} else {
		vAssert(first != nil && has(got, first.(int)), "MatchFirst returns a member of the match set")
	}
	vCover("c04-matchset-end")
}

// VerifC04SearchSet: two stored names, one filter.
func VerifC04SearchSet() {
	L := vParam("L", 3)
	n1 := vString("n1", L)
	n2 := vString("n2", L)
	f := vString("filter", L)
	vAssume(validName(n1, L))
	vAssume(validName(n2, L))
	vAssume(validFilter(f, L))
	v2 := 1 + vChoice("v2", 2)
	t := NewStandardTree()
	t.Add(n1, 1)
	t.Add(n2, v2)
	got := t.Search(f)
	m1 := refMatch(f, n1)
	m2 := refMatch(f, n2)
	want1 := m1 || (m2 && v2 == 1)
	want2 := m2 && v2 == 2
	cnt := 0
	if want1 {
		cnt++
	}
	if want2 {
		cnt++
	}
	vAssert(has(got, 1) == want1, "value 1 returned iff a name holding it is matched")
	vAssert(has(got, 2) == want2, "value 2 returned iff a name holding it is matched")
	vAssert(len(got) == cnt, "each value once")
	first := t.SearchFirst(f)
	if cnt == 0 {
		vAssert(first == nil, "SearchFirst nil iff the set is empty")
	} else {
		vAssert(first != nil && has(got, first.(int)), "SearchFirst returns a member of the result set")
	}
	vCover("c04-searchset-end")
}

// VerifC04MatchSet3 / VerifC04SearchSet3: three stored topics whose values are drawn from two
// values (so one value may sit under two topics with the other value collected in between):
// the result holds exactly the values of the matching topics, each value once.
func VerifC04MatchSet3() {
	L := vParam("L", 2)
	var f [3]string
	var v [3]int
	t := NewStandardTree()
	n := vString("name", L)
	vAssume(validName(n, L))
	for i := 0; i < 3; i++ {
		f[i] = vString("f", L)
		vAssume(validFilter(f[i], L))
		v[i] = 1
		if i > 0 {
			v[i] = 1 + vChoice("v", 2)
		}
		t.Add(f[i], v[i])
	}
	got := t.Match(n)
	want1, want2 := false, false
	for i := 0; i < 3; i++ {
		if refMatch(f[i], n) {
			if v[i] == 1 {
				want1 = true
			} else {
				want2 = true
			}
		}
	}
	cnt := 0
	if want1 {
		cnt++
	}
	if want2 {
		cnt++
	}
	vAssert(has(got, 1) == want1, "value 1 returned iff a filter holding it matches")
	vAssert(has(got, 2) == want2, "value 2 returned iff a filter holding it matches")
	vAssert(len(got) == cnt, "each value once")
	vCover("c04-matchset3-end")
}

func VerifC04SearchSet3() {
	L := vParam("L", 2)
	var nm [3]string
	var v [3]int
	t := NewStandardTree()
	f := vString("filter", L)
	vAssume(validFilter(f, L))
	for i := 0; i < 3; i++ {
		nm[i] = vString("n", L)
		vAssume(validName(nm[i], L))
		v[i] = 1
		if i > 0 {
			v[i] = 1 + vChoice("v", 2)
		}
		t.Add(nm[i], v[i])
	}
	got := t.Search(f)
	want1, want2 := false, false
	for i := 0; i < 3; i++ {
		if refMatch(f, nm[i]) {
			if v[i] == 1 {
				want1 = true
			} else {
				want2 = true
			}
		}
	}
	cnt := 0
	if want1 {
		cnt++
	}
	if want2 {
		cnt++
	}
	vAssert(has(got, 1) == want1, "value 1 returned iff a name holding it is matched")
	vAssert(has(got, 2) == want2, "value 2 returned iff a name holding it is matched")
	vAssert(len(got) == cnt, "each value once")
	vCover("c04-searchset3-end")
}
