//go:build verif

package topic

// C05: after any (bounded) history the tree answers like a plain map topic -> duplicate-free
// value list; emptied branches leave no trace; query results are snapshots.

type refTree struct {
	topics []string
	vals   [][]int
}

func (m *refTree) find(topic string) int {
	for i := range m.topics {
		if m.topics[i] == topic {
			return i
		}
	}
	return -1
}

func hasInt(l []int, v int) bool {
	for _, x := range l {
		if x == v {
			return true
		}
	}
	return false
}

func (m *refTree) drop(i int) {
	m.topics = append(m.topics[:i:i], m.topics[i+1:]...)
	m.vals = append(m.vals[:i:i], m.vals[i+1:]...)
}

func (m *refTree) add(topic string, v int) {
	i := m.find(topic)
	if i < 0 {
		m.topics = append(m.topics, topic)
		m.vals = append(m.vals, []int{v})
		return
	}
	if !hasInt(m.vals[i], v) {
		m.vals[i] = append(m.vals[i], v)
	}
}

func (m *refTree) set(topic string, v int) {
	i := m.find(topic)
	if i < 0 {
		m.topics = append(m.topics, topic)
		m.vals = append(m.vals, []int{v})
		return
	}
	m.vals[i] = []int{v}
}

func without(l []int, v int) []int {
	var r []int
	for _, x := range l {
		if x != v {
			r = append(r, x)
		}
	}
	return r
}

func (m *refTree) remove(topic string, v int) {
	i := m.find(topic)
	if i < 0 {
		return
	}
	m.vals[i] = without(m.vals[i], v)
	if len(m.vals[i]) == 0 {
		m.drop(i)
	}
}

func (m *refTree) empty(topic string) {
	if i := m.find(topic); i >= 0 {
		m.drop(i)
	}
}

func (m *refTree) clear(v int) {
	for i := len(m.topics) - 1; i >= 0; i-- {
		m.vals[i] = without(m.vals[i], v)
		if len(m.vals[i]) == 0 {
			m.drop(i)
		}
	}
}

func (m *refTree) reset() { m.topics, m.vals = nil, nil }

func (m *refTree) count() int {
	n := 0
	for i := range m.vals {
		n += len(m.vals[i])
	}
	return n
}

// union of the values of the entries selected by sel
func (m *refTree) union(sel func(topic string) bool) (bool, bool) {
	w1, w2 := false, false
	for i := range m.topics {
		if sel(m.topics[i]) {
			if hasInt(m.vals[i], 1) {
				w1 = true
			}
			if hasInt(m.vals[i], 2) {
				w2 = true
			}
		}
	}
	return w1, w2
}

func sameSet(got []interface{}, w1, w2 bool, msg string) {
	n := 0
	if w1 {
		n++
	}
	if w2 {
		n++
	}
	vAssert(has(got, 1) == w1, msg+": value 1")
	vAssert(has(got, 2) == w2, msg+": value 2")
	vAssert(len(got) == n, msg+": no duplicates, nothing else")
}

// noDeadBranches: no non-root node without values and without children.
func noDeadBranches(n *node, root bool) bool {
	if !root && len(n.values) == 0 && len(n.children) == 0 {
		return false
	}
	for _, c := range n.children {
		if !noDeadBranches(c, false) {
			return false
		}
	}
	return true
}

// c05Apply performs one symbolic operation on both the tree and the model.
func c05Apply(t *Tree, m *refTree, L int, names bool) {
	op := vChoice("op", 6)
	topic := vString("topic", L)
	if names {
		vAssume(validName(topic, L))
	} else {
		vAssume(validFilter(topic, L))
	}
	v := 1 + vChoice("val", 2)
	switch op {
	case 0:
		t.Add(topic, v)
		m.add(topic, v)
	case 1:
		t.Set(topic, v)
		m.set(topic, v)
	case 2:
		t.Remove(topic, v)
		m.remove(topic, v)
	case 3:
		t.Empty(topic)
		m.empty(topic)
	case 4:
		t.Clear(v)
		m.clear(v)
	case 5:
		t.Reset()
		m.reset()
	}
}

func c05History(names bool) (*Tree, *refTree, int) {
	L := vParam("L", 3)
	H := vParam("H", 2)
	t := NewStandardTree()
	m := &refTree{}
	for i := 0; i < H; i++ {
		c05Apply(t, m, L, names)
	}
	vAssert(noDeadBranches(t.root, true), "emptied branches leave no node behind")
	vAssert(t.Count() == m.count(), "Count equals the map's number of (topic, value) pairs")
	w1, w2 := m.union(func(string) bool { return true })
	sameSet(t.All(), w1, w2, "All")
	return t, m, L
}

// VerifC05HistMatch: stored topics are filters; Get / Match / MatchFirst agree with the map.
func VerifC05HistMatch() {
	t, m, L := c05History(false)
	q := vString("query", L)
	vAssume(validFilter(q, L))
	g1, g2 := m.union(func(tp string) bool { return tp == q })
	sameSet(t.Get(q), g1, g2, "Get")
	n := vString("name", L)
	vAssume(validName(n, L))
	w1, w2 := m.union(func(tp string) bool { return refMatch(tp, n) })
	sameSet(t.Match(n), w1, w2, "Match")
	first := t.MatchFirst(n)
	if !w1 && !w2 {
		vAssert(first == nil, "MatchFirst nil iff nothing matches")
	} else {
		vAssert(first != nil, "MatchFirst non-nil iff something matches")
		if first != nil {
			vAssert((first == 1 && w1) || (first == 2 && w2), "MatchFirst returns a member")
		}
	}
	vCover("c05-histmatch-end")
}

// VerifC05HistSearch: stored topics are names; Get / Search / SearchFirst agree with the map.
func VerifC05HistSearch() {
	t, m, L := c05History(true)
	f := vString("filter", L)
	vAssume(validFilter(f, L))
	w1, w2 := m.union(func(tp string) bool { return refMatch(f, tp) })
	sameSet(t.Search(f), w1, w2, "Search")
	first := t.SearchFirst(f)
	if !w1 && !w2 {
		vAssert(first == nil, "SearchFirst nil iff nothing matches")
	} else {
		vAssert(first != nil, "SearchFirst non-nil iff something matches")
		if first != nil {
			vAssert((first == 1 && w1) || (first == 2 && w2), "SearchFirst returns a member")
		}
	}
	vCover("c05-histsearch-end")
}

// VerifC05Snapshot: a returned result is not altered by a later operation.
func VerifC05Snapshot() {
	L := vParam("L", 2)
	t := NewStandardTree()
	m := &refTree{}
	pre := vParam("PRE", 1)
	for i := 0; i < pre; i++ {
		c05Apply(t, m, L, true)
	}
	q := vString("query", L)
	vAssume(validName(q, L))
	var res []interface{}
	switch vChoice("query", 4) {
	case 0:
		res = t.Get(q)
	case 1:
		res = t.Match(q)
	case 2:
		res = t.Search(q)
	case 3:
		res = t.All()
	}
	saved := append([]interface{}(nil), res...)
	c05Apply(t, m, L, true)
	vAssert(len(res) == len(saved), "length of a returned result is unchanged by later operations")
	for i := range saved {
		vAssert(res[i] == saved[i], "a returned result is a snapshot: later operations do not alter it")
	}
	vCover("c05-snapshot-end")
}

// VerifC05Prune: two adds followed by one removal (remove / empty / clear) - the op-kind
// triples in which pruning decides the outcome - with names long enough for a parent and
// its child ("a", "a/b"); then every query against the model.
func VerifC05Prune() {
	L := vParam("L", 3)
	t := NewStandardTree()
	m := &refTree{}
	var tps [2]string
	for i := 0; i < 2; i++ {
		tp := vString("topic", L)
		vAssume(validName(tp, L))
		v := 1 + vChoice("val", 2)
		t.Add(tp, v)
		m.add(tp, v)
		tps[i] = tp
	}
	v := 1 + vChoice("val", 2)
	switch vChoice("removal", 4) {
	case 3:
		k := vChoice("victim", 2)
		t.Set(tps[k], v)
		m.set(tps[k], v)
	case 0:
		k := vChoice("victim", 2)
		t.Remove(tps[k], v)
		m.remove(tps[k], v)
	case 1:
		k := vChoice("victim", 2)
		t.Empty(tps[k])
		m.empty(tps[k])
	case 2:
		t.Clear(v)
		m.clear(v)
	}
	vAssert(noDeadBranches(t.root, true), "emptied branches leave no node behind")
	vAssert(t.Count() == m.count(), "Count equals the map's number of (topic, value) pairs")
	w1, w2 := m.union(func(string) bool { return true })
	sameSet(t.All(), w1, w2, "All")
	for i := 0; i < 2; i++ {
		q := tps[i]
		g1, g2 := m.union(func(x string) bool { return x == q })
		sameSet(t.Get(q), g1, g2, "Get")
	}
	vCover("c05-prune-end")
}
