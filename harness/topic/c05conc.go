//go:build verif

package topic

// VerifC05Concurrent: two goroutines, one operation each, on a small tree: every result
// equals the map's answer in one of the two serial orders (operations are atomic) and no
// node field is accessed without the tree's lock (lockset check of the engine).

type c05Op struct {
	kind  int // 0 add 1 set 2 remove 3 empty 4 clear 5 reset 6 get 7 match 8 search 9 count
	topic string
	val   int
}

func c05Pick(tag string) c05Op {
	op := c05Op{kind: vChoice(tag, 10), val: 1 + vChoice(tag+"-val", 2)}
	if vChoice(tag+"-topic", 2) == 0 {
		op.topic = "a"
	} else {
		op.topic = "a/b"
	}
	return op
}

func (op c05Op) applyModel(m *refTree) {
	switch op.kind {
	case 0:
		m.add(op.topic, op.val)
	case 1:
		m.set(op.topic, op.val)
	case 2:
		m.remove(op.topic, op.val)
	case 3:
		m.empty(op.topic)
	case 4:
		m.clear(op.val)
	case 5:
		m.reset()
	}
}

// result of a query as (has1, has2, n)
type c05Res struct {
	w1, w2 bool
	n      int
}

func resOf(l []interface{}) c05Res { return c05Res{has(l, 1), has(l, 2), len(l)} }

func (op c05Op) queryModel(m *refTree) c05Res {
	var w1, w2 bool
	switch op.kind {
	case 6:
		w1, w2 = m.union(func(tp string) bool { return tp == op.topic })
	case 7:
		w1, w2 = m.union(func(tp string) bool { return refMatch(tp, op.topic) })
	case 8:
		w1, w2 = m.union(func(tp string) bool { return refMatch(op.topic, tp) })
	case 9:
		return c05Res{n: m.count()}
	}
	n := 0
	if w1 {
		n++
	}
	if w2 {
		n++
	}
	return c05Res{w1, w2, n}
}

func (op c05Op) applyTree(t *Tree) c05Res {
	switch op.kind {
	case 0:
		t.Add(op.topic, op.val)
	case 1:
		t.Set(op.topic, op.val)
	case 2:
		t.Remove(op.topic, op.val)
	case 3:
		t.Empty(op.topic)
	case 4:
		t.Clear(op.val)
	case 5:
		t.Reset()
	case 6:
		return resOf(t.Get(op.topic))
	case 7:
		return resOf(t.Match(op.topic))
	case 8:
		return resOf(t.Search(op.topic))
	case 9:
		return c05Res{n: t.Count()}
	}
	return c05Res{}
}

func c05Model() *refTree {
	m := &refTree{}
	m.add("a", 1)
	m.add("a/b", 2)
	m.add("a/b", 1)
	return m
}

func (m *refTree) stateEquals(t *Tree) bool {
	for _, tp := range []string{"a", "a/b"} {
		w1, w2 := m.union(func(x string) bool { return x == tp })
		g := t.Get(tp)
		n := 0
		if w1 {
			n++
		}
		if w2 {
			n++
		}
		if has(g, 1) != w1 || has(g, 2) != w2 || len(g) != n {
			return false
		}
	}
	return t.Count() == m.count()
}

func VerifC05Concurrent() {
	t := NewStandardTree()
	t.Add("a", 1)
	t.Add("a/b", 2)
	t.Add("a/b", 1)
	a, b := c05Pick("opA"), c05Pick("opB")
	var ra, rb c05Res
	done := make(chan int, 2)
	go func() { ra = a.applyTree(t); done <- 1 }()
	go func() { rb = b.applyTree(t); done <- 2 }()
	<-done
	<-done
	// serial order A;B
	m1 := c05Model()
	qa1 := a.queryModel(m1)
	a.applyModel(m1)
	qb1 := b.queryModel(m1)
	b.applyModel(m1)
	// serial order B;A
	m2 := c05Model()
	qb2 := b.queryModel(m2)
	b.applyModel(m2)
	qa2 := a.queryModel(m2)
	a.applyModel(m2)
	okAB := m1.stateEquals(t) && (a.kind < 6 || ra == qa1) && (b.kind < 6 || rb == qb1)
	okBA := m2.stateEquals(t) && (a.kind < 6 || ra == qa2) && (b.kind < 6 || rb == qb2)
	vAssert(okAB || okBA, "concurrent operations take effect atomically: results and final contents equal one of the serial orders")
	vAssert(noDeadBranches(t.root, true), "no dead branch after concurrent operations")
	vCover("c05-concurrent-end")
}
