//go:build verif

package topic

// Exported for the harnesses of other packages (broker, client).

func VerifRefMatch(filter, name string) bool    { return refMatch(filter, name) }
func VerifValidFilter(f string, max int) bool   { return validFilter(f, max) }
func VerifValidName(n string, max int) bool     { return validName(n, max) }
