//go:build verif

package client

import (
	"errors"

	"github.com/256dpi/gomqtt/packet"
	"github.com/256dpi/gomqtt/session"
)

var errCallback = errors.New("application rejects the message")

// VerifC10: inbound side of the client. Broker scripts over PUBLISH(id, qos, dup), PUBREL(id),
// drop + resume; callback returning nil or an error; send failures at every acknowledgement.
func VerifC10() {
	D := vParam("D", 3)
	early := vParam("EARLY", 0) == 1
	sess := session.NewMemorySession()
	open := map[packet.ID]bool{}   // QoS 2 handshake instance open (default mode)
	okCalls := map[packet.ID]int{} // accepted (nil-returning) callbacks in the open instance
	var conn *vConn
	var cl *Client
	rejected := false   // the callback returned an error for the message being processed
	acksAfterReject := 0
	lastMarker := byte(0)
	arrivals := 0
	cb := func(msg *packet.Message, err error) error {
		if err != nil || msg == nil {
			return nil
		}
		id := packet.ID(msg.Payload[0])
		lastMarker = msg.Payload[1]
		arrivals++
		if vFail("callback-error") {
			rejected = true
			return errCallback
		}
		if msg.QOS == 2 && !early {
			okCalls[id]++
			vAssert(okCalls[id] <= 1, "a QoS 2 message is passed to the application at most once per handshake")
		}
		return nil
	}
	monitor := func(pkt packet.Generic) {
		if rejected {
			switch pkt.Type() {
			case packet.PUBACK, packet.PUBREC, packet.PUBCOMP:
				acksAfterReject++
			}
		}
		if p, ok := pkt.(*packet.Pubcomp); ok && open[p.ID] && !early {
			vAssert(okCalls[p.ID] == 1, "PUBCOMP for an open handshake only after exactly one accepted delivery")
			open[p.ID] = false
			okCalls[p.ID] = 0
		}
	}
	clean := vBool("clean") // with a clean session every connect starts from an empty session
	connect := func() bool {
		conn = newVConn(true)
		conn.onSend = monitor
		cl = New()
		cl.Session = sess
		cl.Callback = cb
		cfg := mkConfig(conn, clean)
		cfg.AlwaysAnnounceOnPublish = early
		if clean { // handshakes of the previous connection vanish with its session
			open[1], open[2] = false, false
			okCalls[1], okCalls[2] = 0, 0
		}
		_, err := cl.Connect(cfg)
		if err != nil {
			return false
		}
		conn.in <- connack(packet.ConnectionAccepted, !clean)
		vQuiesce()
		return conn.alive()
	}
	up := connect()
	for step := 0; step < D; step++ {
		if !up {
			// connection is gone (fault, callback error): the broker sees the drop and the client resumes
			rejected = false
			if cl != nil {
				cl.Close()
			}
			up = connect()
			continue
		}
		switch vChoice("event", 3) {
		case 0: // PUBLISH
			id := packet.ID(1 + vChoice("id", 2))
			q := packet.QOS(vChoice("qos", 3))
			marker := byte(10 + step)
			p := packet.NewPublish()
			p.ID, p.Dup = id, vBool("dup")
			p.Message = packet.Message{Topic: "t", Payload: []byte{byte(id), marker}, QOS: q}
			if q == 2 && !open[id] {
				open[id] = true
				okCalls[id] = 0
			}
			before := arrivals
			recs, acks := conn.count(packet.PUBREC), conn.count(packet.PUBACK)
			conn.in <- p
			vQuiesce()
			if q < 2 || early {
				vAssert(arrivals == before+1 && lastMarker == marker, "QoS 0/1 messages are passed on as they arrive")
			}
			if conn.alive() && !rejected {
				if q == 1 {
					vAssert(conn.count(packet.PUBACK) == acks+1, "QoS 1 delivery is followed by a PUBACK")
				}
				if q == 2 {
					vAssert(conn.count(packet.PUBREC) == recs+1, "every QoS 2 PUBLISH is answered by PUBREC")
				}
			}
		case 1: // PUBREL (also for an id the client does not know)
			id := packet.ID(1 + vChoice("id", 2))
			comps := conn.count(packet.PUBCOMP)
			conn.in <- &packet.Pubrel{ID: id}
			vQuiesce()
			if conn.alive() && !rejected {
				vAssert(conn.count(packet.PUBCOMP) == comps+1, "every PUBREL is answered by PUBCOMP, also for an unknown packet id")
			}
		case 2: // the connection drops; resume with the same session
			conn.Close()
			vQuiesce()
			up = false
			continue
		}
		if rejected {
			vCover("c10-callback-error")
			vAssert(acksAfterReject == 0, "no acknowledgement is sent for a message the application rejected")
			vAssert(conn.isClosed(), "the connection is closed after a callback error")
		}
		up = conn.alive() && !rejected
	}
	vCover("c10-end")
}

// VerifC10Retransmit: the retransmission family at depth 5: a QoS 2 delivery whose
// acknowledgements may be lost at any point, the broker retransmitting PUBLISH (dup) /
// PUBREL after every resume: the application sees the message exactly once.
func VerifC10Retransmit() {
	sess := session.NewMemorySession()
	calls := 0
	cb := func(msg *packet.Message, err error) error {
		if err == nil && msg != nil {
			calls++
			vAssert(calls <= 1, "a QoS 2 message is passed to the application at most once per handshake")
		}
		return nil
	}
	var conn *vConn
	var cl *Client
	connect := func() bool {
		conn = newVConn(true)
		cl = New()
		cl.Session = sess
		cl.Callback = cb
		if _, err := cl.Connect(mkConfig(conn, false)); err != nil {
			cl.Close()
			return false
		}
		conn.in <- connack(packet.ConnectionAccepted, true)
		vQuiesce()
		return conn.alive()
	}
	rounds := 0
	gotRec, gotComp := false, false
	for !gotRec && rounds < 3 {
		rounds++
		if !connect() {
			continue
		}
		p := packet.NewPublish()
		p.ID, p.Dup = 4, rounds > 1
		p.Message = packet.Message{Topic: "t", Payload: []byte{4, 1}, QOS: 2}
		conn.in <- p
		vQuiesce()
		if conn.count(packet.PUBREC) == 1 {
			gotRec = true
		} else {
			cl.Close()
		}
	}
	for gotRec && !gotComp && rounds < 5 {
		rounds++
		if !conn.alive() {
			cl.Close()
			if !connect() {
				continue
			}
		}
		conn.in <- &packet.Pubrel{ID: 4}
		vQuiesce()
		if conn.count(packet.PUBCOMP) >= 1 {
			gotComp = true
		}
	}
	if gotComp {
		vCover("c10-retransmit-completed")
		vAssert(calls == 1, "the message was delivered exactly once when the handshake completed")
	}
	if cl != nil {
		cl.Close()
	}
	vCover("c10-retransmit-end")
}
