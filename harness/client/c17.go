//go:build verif

package client

import (
	"github.com/256dpi/gomqtt/packet"
)

type c17Sub struct {
	topic string
	qos   packet.QOS
}

// svcHarness drives a real Service: the harness thread is both the application and the broker.
type svcHarness struct {
	s        *Service
	d        *vDialer
	failures int
	F        int
	online   int
	offline  int
	model    []c17Sub // subscriptions that must be re-established (sorted by topic)
	conn     *vConn   // connection of the current attempt
	seen     int      // packets of conn already examined by the harness
}

func (h *svcHarness) fail(tag string) bool {
	if h.failures < h.F && vFail(tag) {
		h.failures++
		return true
	}
	return false
}

func (h *svcHarness) modelSet(topic string, q packet.QOS) {
	for i := range h.model {
		if h.model[i].topic == topic {
			h.model[i].qos = q
			return
		}
	}
	h.model = append(h.model, c17Sub{topic, q})
	// keep sorted by topic (insertion)
	for i := len(h.model) - 1; i > 0 && h.model[i].topic < h.model[i-1].topic; i-- {
		h.model[i], h.model[i-1] = h.model[i-1], h.model[i]
	}
}

func (h *svcHarness) modelDel(topic string) {
	for i := range h.model {
		if h.model[i].topic == topic {
			h.model = append(h.model[:i:i], h.model[i+1:]...)
			return
		}
	}
}

// current returns the connection of the latest dial, nil if none is usable.
func (h *svcHarness) current() *vConn {
	if h.d.next == 0 {
		return nil
	}
	return h.d.conns[h.d.next-1]
}

// goOnline plays the broker until the service is online (resubscribed) or the attempt
// budget is used up; returns true when online.
func (h *svcHarness) goOnline() bool {
	for attempt := 0; attempt < h.F+2; attempt++ {
		vQuiesce()
		c := h.current()
		if c == nil || c == h.conn || !c.alive() || c.count(packet.CONNECT) != 1 {
			// dial refused or CONNECT unsendable: the supervisor sits in its backoff delay
			for i := 0; i < 4 && (h.current() == c); i++ {
				if !vFireTimers() {
					break
				}
				vQuiesce()
			}
			continue
		}
		h.conn, h.seen = c, 1
		// the service waits for the CONNACK
		if h.fail("no-connack") {
			for i := 0; i < 16 && c.alive(); i++ { // let the connect timeout elapse
				vFireTimers()
				vQuiesce()
			}
			vAssert(!c.alive(), "a connection without CONNACK is given up")
			continue
		}
		if h.fail("drop-before-connack") {
			c.Close()
			continue
		}
		c.in <- connack(packet.ConnectionAccepted, true)
		vQuiesce()
		if !c.alive() {
			continue
		}
		// resubscription: exactly the current set, sorted, as the first packet after CONNECT
		if len(h.model) > 0 {
			// retransmissions of the resumed session may precede it
			k := 1
			for k < c.sentCount() {
				if p, isPub := c.sentAt(k).(*packet.Publish); isPub && p.Dup {
					k++
				} else if c.sentAt(k).Type() == packet.PUBREL {
					k++
				} else {
					break
				}
			}
			vAssert(c.sentCount() == k+1, "the resubscription is the first request sent after a reconnect")
			if c.sentCount() != k+1 {
				return false
			}
			sub, ok := c.sentAt(k).(*packet.Subscribe)
			vAssert(ok, "a SUBSCRIBE re-establishes the subscriptions")
			if !ok {
				return false
			}
			vAssert(len(sub.Subscriptions) == len(h.model), "exactly the subscriptions resulting from all calls so far")
			for i := 0; i < len(h.model) && i < len(sub.Subscriptions); i++ {
				vAssert(sub.Subscriptions[i].Topic == h.model[i].topic && sub.Subscriptions[i].QOS == h.model[i].qos, "resubscription carries the current filter/QoS set")
			}
			h.seen = k + 1
			if h.fail("drop-during-resubscribe") {
				c.Close()
				continue
			}
			codes := make([]packet.QOS, len(sub.Subscriptions))
			for i := range codes {
				codes[i] = sub.Subscriptions[i].QOS
			}
			if h.fail("resubscribe-rejected") {
				codes[0] = packet.QOSFailure
			}
			c.in <- &packet.Suback{ID: sub.ID, ReturnCodes: codes}
			vQuiesce()
			if !c.alive() {
				continue
			}
		}
		return true
	}
	return false
}

// VerifC17: failure schedules x commands; resubscription set, FIFO dispatch, futures
// surviving reconnects, Stop/Start.
func VerifC17() {
	h := &svcHarness{F: vParam("F", 1)}
	h.d = &vDialer{}
	for i := 0; i < 6; i++ {
		h.d.conns = append(h.d.conns, newVConn(false))
	}
	h.d.refuse = func() bool { return h.fail("dial-refused") }
	for _, c := range h.d.conns {
		c.faults = false
	}
	s := NewService(4)
	h.s = s
	s.OnlineCallback = func(bool) { h.online++ }
	s.OfflineCallback = func() { h.offline++ }
	cfg := NewConfigWithClientID("mqtt://broker", "svc")
	cfg.CleanSession = false
	cfg.KeepAlive = "0s"
	cfg.Dialer = h.d
	// the CONNECT of the first attempt may be unsendable
	if h.fail("connect-unsendable") {
		h.d.conns[0].failNext = 1
	}
	vAssert(s.Start(cfg), "Start")

	// commands issued while (possibly still) offline: carried out once online, in order
	C := vParam("C", 2)
	type issued struct {
		kind int
		f    GenericFuture
		topic string
	}
	var cmds []issued
	for i := 0; i < C; i++ {
		kind := vChoice("command", 3)
		topic := string([]byte{byte('a' + vChoice("topic", 2))})
		switch kind {
		case 0:
			q := packet.QOS(vChoice("qos", 2))
			cmds = append(cmds, issued{0, s.Subscribe(topic, q), topic})
			h.modelSetLater(topic, q)
		case 1:
			cmds = append(cmds, issued{1, s.Unsubscribe(topic), topic})
			h.modelDelLater(topic)
		case 2:
			cmds = append(cmds, issued{2, s.Publish(topic, []byte{byte(i)}, 1, false), topic})
		}
	}
	if !h.goOnline() {
		vCover("c17-never-online")
	} else {
		vCover("c17-online")
		c := h.conn
		vQuiesce()
		// queued commands were dispatched in issue order
		// the requests on the wire are the issued commands in issue order; a command may be
		// missing only if it was given up (future cancelled) because a connection died under it
		matches := func(i int, p packet.Generic) bool {
			switch cmds[i].kind {
			case 0:
				sp, ok := p.(*packet.Subscribe)
				return ok && sp.Subscriptions[0].Topic == cmds[i].topic
			case 1:
				up, ok := p.(*packet.Unsubscribe)
				return ok && up.Topics[0] == cmds[i].topic
			}
			pp, ok := p.(*packet.Publish)
			return ok && !pp.Dup && pp.Message.Topic == cmds[i].topic
		}
		idx, matched := 0, 0
		for k := h.seen; k < c.sentCount(); k++ {
			p := c.sentAt(k)
			found := false
			for idx < len(cmds) && !found {
				if matches(idx, p) {
					found = true
					matched++
				} else {
					vAssert(futureState(cmds[idx].f) == "canceled", "a command that is not carried out was given up (its future is cancelled), never silently dropped or overtaken")
				}
				idx++
			}
			vAssert(found, "commands are carried out in the order issued")
		}
		if h.failures == 0 {
			vAssert(matched == len(cmds), "every queued command is carried out once online")
		}
		h.applyLater()
		// the connection drops before the acknowledgements arrive; futures must survive
		first := h.seen
		n := len(cmds)
		if n > 0 && c.sentCount() == first+n && h.fail("drop-after-commands") {
			vCover("c17-drop-after-commands")
			var ids []packet.ID
			for i := 0; i < n; i++ {
				id, _ := packet.GetID(c.sentAt(first + i))
				ids = append(ids, id)
			}
			c.Close()
			if h.goOnline() {
				c2 := h.conn
				// stored publishes are retransmitted by the resumed session; acknowledge through it
				for i := 0; i < n; i++ {
					switch cmds[i].kind {
					case 2:
						c2.in <- &packet.Puback{ID: ids[i]}
						vQuiesce()
						vAssert(futureState(cmds[i].f) == "done", "a publish future completes when the acknowledgement arrives through the resumed session")
					}
				}
			}
		} else if c.sentCount() == first+n {
			for i := 0; i < n; i++ {
				id, _ := packet.GetID(c.sentAt(first + i))
				switch cmds[i].kind {
				case 0:
					c.in <- &packet.Suback{ID: id, ReturnCodes: []packet.QOS{0}}
				case 1:
					c.in <- &packet.Unsuback{ID: id}
				case 2:
					c.in <- &packet.Puback{ID: id}
				}
				vQuiesce()
				vAssert(futureState(cmds[i].f) == "done", "a command future completes with its acknowledgement")
			}
		}
	}
	// Stop always returns and cancels what is pending; a restart works
	vAssert(s.Stop(true), "Stop returns")
	for i := range cmds {
		vAssert(futureState(cmds[i].f) != "pending", "Stop(true) leaves no future pending")
	}
	vAssert(vLive() == 0, "no goroutine of the service is left after Stop")
	vAssert(s.Start(cfg), "a stopped service can be started again")
	// the restarted service works like a fresh one: a publish survives a connection loss
	h.F = h.failures // no further failures while the restarted service connects
	h.conn = h.current()
	c17Later = nil
	pf := s.Publish("z", []byte{42}, 1, false)
	if h.goOnline() {
		h.F = h.failures + 1 // one more failure: the connection may drop after the publish
		c := h.conn
		vQuiesce()
		if c.alive() && c.sentCount() >= 2 {
			pp, ok := c.sentAt(c.sentCount() - 1).(*packet.Publish)
			vAssert(ok && pp.Message.Topic == "z", "a command issued after the restart is carried out")
			if ok && h.fail("drop-after-restart") {
				vCover("c17-restart-drop")
				c.Close()
				h.F = h.failures
				if h.goOnline() {
					h.conn.in <- &packet.Puback{ID: pp.ID}
					vQuiesce()
					vAssert(futureState(pf) == "done", "after a restart futures still survive a reconnect and complete through the resumed session")
				}
			} else if ok {
				c.in <- &packet.Puback{ID: pp.ID}
				vQuiesce()
				vAssert(futureState(pf) == "done", "a publish after the restart completes with its acknowledgement")
			}
		}
	}
	vAssert(s.Stop(true), "and stopped again")
	vAssert(futureState(pf) != "pending", "Stop(true) leaves no future pending after a restart either")
	vCover("c17-end")
}

// model updates take effect when the dispatcher handles the command (once online)
type c17Pending struct {
	set   bool
	topic string
	qos   packet.QOS
}

var c17Later []c17Pending

func (h *svcHarness) modelSetLater(topic string, q packet.QOS) {
	c17Later = append(c17Later, c17Pending{true, topic, q})
}
func (h *svcHarness) modelDelLater(topic string) {
	c17Later = append(c17Later, c17Pending{false, topic, 0})
}
func (h *svcHarness) applyLater() {
	for _, p := range c17Later {
		if p.set {
			h.modelSet(p.topic, p.qos)
		} else {
			h.modelDel(p.topic)
		}
	}
	c17Later = nil
}

// VerifC17CommandOnDying: the service is online with subscriptions a and b; the connection
// dies and at the same moment the application issues an Unsubscribe(b) or a Subscribe(c).
// Whichever way the race between the dispatcher and the dying client goes - the command is
// taken by the dispatcher and fails on the dead connection (future cancelled), or it stays
// queued and is carried out on the next connection - every later reconnect re-establishes
// exactly the set resulting from all calls made so far.
func VerifC17CommandOnDying() {
	h := &svcHarness{F: 0}
	h.d = &vDialer{}
	for i := 0; i < 6; i++ {
		h.d.conns = append(h.d.conns, newVConn(false))
	}
	h.d.refuse = func() bool { return false }
	s := NewService(4)
	h.s = s
	cfg := NewConfigWithClientID("mqtt://broker", "svc")
	cfg.CleanSession = false
	cfg.KeepAlive = "0s"
	cfg.Dialer = h.d
	vAssert(s.Start(cfg), "Start")
	s.Subscribe("a", 0)
	s.Subscribe("b", 1)
	vAssert(h.goOnline(), "online")
	c := h.conn
	vQuiesce()
	vAssert(c.sentCount() == h.seen+2, "both subscribe commands are carried out")
	for k := h.seen; k < c.sentCount(); k++ {
		sub, ok := c.sentAt(k).(*packet.Subscribe)
		vAssert(ok, "a SUBSCRIBE per command")
		if ok {
			c.in <- &packet.Suback{ID: sub.ID, ReturnCodes: []packet.QOS{sub.Subscriptions[0].QOS}}
			vQuiesce()
		}
	}
	h.modelSet("a", 0)
	h.modelSet("b", 1)
	before := c.sentCount()
	// the connection dies; the application issues a command at the same moment
	c.Close()
	kind := vChoice("command", 2)
	var f GenericFuture
	if kind == 0 {
		f = s.Unsubscribe("b")
	} else {
		f = s.Subscribe("c", 0)
	}
	apply := func() {
		if kind == 0 {
			h.modelDel("b")
		} else {
			h.modelSet("c", 0)
		}
	}
	vQuiesce()
	handled := futureState(f) == "canceled" || c.sentCount() > before
	if handled {
		vCover("c17-dying-handled")
		apply() // the dispatcher took the command: the call counts, although it could not be carried out
	}
	vAssert(h.goOnline(), "the service reconnects and re-establishes the current set")
	c2 := h.conn
	vQuiesce()
	if !handled {
		vCover("c17-dying-queued")
		vAssert(c2.sentCount() == h.seen+1, "the queued command is carried out once online")
		if c2.sentCount() == h.seen+1 {
			id, _ := packet.GetID(c2.sentAt(h.seen))
			if kind == 0 {
				_, ok := c2.sentAt(h.seen).(*packet.Unsubscribe)
				vAssert(ok, "as an UNSUBSCRIBE")
				c2.in <- &packet.Unsuback{ID: id}
			} else {
				_, ok := c2.sentAt(h.seen).(*packet.Subscribe)
				vAssert(ok, "as a SUBSCRIBE")
				c2.in <- &packet.Suback{ID: id, ReturnCodes: []packet.QOS{0}}
			}
			vQuiesce()
			vAssert(futureState(f) == "done", "and its future completes")
		}
		apply()
	}
	// one more connection loss: the resubscription is exactly the resulting set
	c2.Close()
	vAssert(h.goOnline(), "the service reconnects again with exactly the resulting set")
	vAssert(s.Stop(true), "Stop returns")
	vAssert(vLive() == 0, "no goroutine of the service is left after Stop")
	vCover("c17-dying-end")
}
