//go:build verif

package client

import (
	"time"

	"github.com/256dpi/gomqtt/client/future"
	"github.com/256dpi/gomqtt/packet"
	"github.com/256dpi/gomqtt/session"
)

// status of a future without blocking for long: "done", "canceled" or "pending"
// (Wait with a timeout returns at quiescence when nothing resolves it).
func futureState(f GenericFuture) string {
	switch f.Wait(time.Millisecond) {
	case nil:
		return "done"
	case future.ErrCanceled:
		return "canceled"
	}
	return "pending"
}

// VerifC09Publish: outbound QoS 1/2 publishes and subscribe/unsubscribe futures against
// broker scripts with right / wrong / duplicate acknowledgements.
func VerifC09Publish() {
	D := vParam("D", 2)
	sess := session.NewMemorySession()
	conn := newVConn(true)
	conn.onSend = func(pkt packet.Generic) {
		if p, ok := pkt.(*packet.Publish); ok && p.Message.QOS > 0 {
			stored, _ := sess.LookupPacket(session.Outgoing, p.ID)
			vAssert(stored == packet.Generic(p), "a QoS 1/2 publish is recorded in the session before it is sent")
		}
	}
	cl := New()
	cl.Session = sess
	cf, err := cl.Connect(mkConfig(conn, false))
	if err != nil {
		vCover("c09-connect-unsendable")
		vAssert(cf == nil, "no future for a failed connect")
		cl.Close() // must return
		return
	}
	vAssert(futureState(cf) == "pending", "connect future is not complete before the CONNACK")
	conn.in <- connack(packet.ConnectionAccepted, false)
	vQuiesce()
	vAssert(futureState(cf) == "done", "connect future completes with the CONNACK")
	vAssert(!cf.SessionPresent() && cf.ReturnCode() == packet.ConnectionAccepted, "connect future reports the CONNACK")

	// one request of each kind may be outstanding
	q := packet.QOS(vChoice("qos", 3))
	pf, perr := cl.Publish("t", []byte{1}, q, false)
	var pid packet.ID
	if perr == nil {
		if q == 0 {
			vAssert(futureState(pf) == "done", "a QoS 0 publish completes once it was handed to the connection")
		} else {
			pub := conn.sentAt(conn.sentCount() - 1).(*packet.Publish)
			pid = pub.ID
			vAssert(pid != 0, "QoS 1/2 publish carries a packet id")
			vAssert(futureState(pf) == "pending", "a QoS 1/2 publish future is pending until acknowledged")
		}
	}
	var sf SubscribeFuture
	var sid packet.ID
	if perr == nil && vBool("subscribe") {
		var serr error
		sf, serr = cl.Subscribe("a", 1)
		if serr == nil {
			sid = conn.sentAt(conn.sentCount() - 1).(*packet.Subscribe).ID
			vAssert(sid != pid, "distinct requests use distinct packet ids")
			vAssert(sf.ReturnCodes() == nil, "accessor of an incomplete future returns the zero value")
		} else {
			sf = nil
		}
	}
	var uf GenericFuture
	var uid packet.ID
	if perr == nil && vBool("unsubscribe") {
		var uerr error
		uf, uerr = cl.Unsubscribe("b")
		if uerr == nil {
			uid = conn.sentAt(conn.sentCount() - 1).(*packet.Unsubscribe).ID
			vAssert(uid != pid && uid != sid && uid != 0, "distinct requests use distinct packet ids")
		} else {
			uf = nil
		}
	}
	unsDone := uf == nil
	gotRec := false
	pubDone := perr != nil || q == 0
	subDone := sf == nil
	subBySuback := false
	for step := 0; step < D && conn.alive(); step++ {
		id := packet.ID(vU16("ackid"))
		vAssume(id != 0)
		kind := vChoice("ack", 5)
		switch kind {
		case 0:
			conn.in <- &packet.Puback{ID: id}
		case 1:
			conn.in <- &packet.Pubrec{ID: id}
		case 2:
			conn.in <- &packet.Pubcomp{ID: id}
		case 3:
			conn.in <- &packet.Suback{ID: id, ReturnCodes: []packet.QOS{1}}
		case 4:
			conn.in <- &packet.Unsuback{ID: id}
		}
		vQuiesce()
		if !conn.alive() {
			break
		}
		// reference: what this acknowledgement means
		wasDone := pubDone
		if perr == nil && q > 0 && id == pid && !pubDone {
			switch {
			case kind == 1 && q == 2:
				gotRec = true
				stored, _ := sess.LookupPacket(session.Outgoing, pid)
				_, isRel := stored.(*packet.Pubrel)
				vAssert(isRel, "PUBREC replaces the stored publish by the PUBREL")
				vAssert(conn.sentAt(conn.sentCount()-1).Type() == packet.PUBREL, "PUBREL sent after PUBREC")
			case kind != 1:
				// any acknowledgement packet bearing the id resolves the request with that id
				// (the client does not check the acknowledgement's type against the request;
				// a conforming broker never sends such a packet - see DESIGN.md C09)
				pubDone = true
			}
		}
		if sf != nil && id == sid && kind != 1 && !subDone {
			subDone = true
			subBySuback = kind == 3
		}
		if perr == nil && q > 0 {
			if pubDone {
				if !wasDone {
					stored, _ := sess.LookupPacket(session.Outgoing, pid)
					vAssert(stored == nil, "the publish is removed from the session once PUBACK/PUBCOMP arrived")
				}
			} else {
				stored, _ := sess.LookupPacket(session.Outgoing, pid)
				vAssert(stored != nil, "the publish stays recorded until it is acknowledged")
				vAssert(futureState(pf) == "pending", "a spurious or foreign acknowledgement completes nothing")
			}
		}
		if sf != nil && !subDone {
			vAssert(futureState(sf) == "pending", "the subscribe future completes only with its own SUBACK")
		}
		if uf != nil && id == uid && kind != 1 && !unsDone {
			unsDone = true
		}
		if uf != nil && !unsDone {
			vAssert(futureState(uf) == "pending", "the unsubscribe future completes only with its own UNSUBACK")
		}
	}
	_ = gotRec
	if conn.alive() {
		if perr == nil && q > 0 && pubDone {
			vCover("c09-publish-acked")
			vAssert(futureState(pf) == "done", "the publish future completes after the acknowledgement for its id")
		}
		if sf != nil && subDone {
			vCover("c09-subscribe-acked")
			vAssert(futureState(sf) == "done", "the subscribe future completes with its SUBACK")
			if subBySuback {
				vAssert(len(sf.ReturnCodes()) == 1, "return codes are those of the SUBACK")
			}
		}
		if uf != nil && unsDone {
			vCover("c09-unsubscribe-acked")
			vAssert(futureState(uf) == "done", "the unsubscribe future completes with its UNSUBACK")
		}
	}
	// C09.end: whatever happened, ending the client resolves every future and returns
	switch vChoice("end", 3) {
	case 0:
		cl.Close()
	case 1:
		cl.Disconnect()
	case 2:
		conn.Close() // connection lost
		vQuiesce()
	}
	vQuiesce()
	if perr == nil && pf != nil {
		vAssert(futureState(pf) != "pending", "no publish future is left unresolved when the client ends")
	}
	if sf != nil {
		vAssert(futureState(sf) != "pending", "no subscribe future is left unresolved when the client ends")
		_ = sf.ReturnCodes() // accessors never panic
	}
	if uf != nil {
		vAssert(futureState(uf) != "pending", "no unsubscribe future is left unresolved when the client ends")
	}
	_ = cf.SessionPresent()
	_ = cf.ReturnCode()
	vAssert(vLive() == 0, "no goroutine of the client is left")
	vCover("c09-end")
}

// VerifC09Connack: CONNACK variants (accepted, refused, something else first, none).
func VerifC09Connack() {
	sess := session.NewMemorySession()
	conn := newVConn(true)
	cl := New()
	cl.Session = sess
	cf, err := cl.Connect(mkConfig(conn, vBool("clean")))
	if err != nil {
		cl.Close()
		vAssert(vLive() == 0, "no goroutine left")
		return
	}
	switch vChoice("first", 4) {
	case 0:
		conn.in <- connack(packet.ConnectionAccepted, vBool("sp"))
		vQuiesce()
		vAssert(futureState(cf) == "done", "accepted")
	case 1:
		conn.in <- connack(packet.NotAuthorized, false)
		vQuiesce()
		vAssert(futureState(cf) == "canceled", "a refused connection cancels the connect future")
		vAssert(cf.ReturnCode() == packet.NotAuthorized, "the refusal code is available")
		vAssert(conn.isClosed(), "connection closed after refusal")
	case 2:
		conn.in <- packet.NewPingresp()
		vQuiesce()
		vAssert(futureState(cf) == "canceled", "anything but CONNACK first cancels the connect future")
		_ = cf.SessionPresent()
		_ = cf.ReturnCode()
	case 3:
		conn.Close()
		vQuiesce()
		vAssert(futureState(cf) == "canceled", "a lost connection cancels the connect future")
		_ = cf.SessionPresent()
	}
	_, perr := cl.Publish("t", nil, 1, false)
	_ = perr
	cl.Close()
	vQuiesce()
	vAssert(vLive() == 0, "no goroutine left")
	vCover("c09-connack-end")
}

// VerifC09Resume: with clean session off everything still recorded is retransmitted after
// the next CONNACK, publishes flagged duplicate.
func VerifC09Resume() {
	sess := session.NewMemorySession()
	n := vLen("stored", 0, 2)
	kinds := make([]int, n)
	for i := 0; i < n; i++ {
		id := sess.NextID()
		kinds[i] = vChoice("kind", 2)
		if kinds[i] == 0 {
			p := packet.NewPublish()
			p.ID = id
			p.Message = packet.Message{Topic: "t", Payload: []byte{byte(id)}, QOS: packet.QOS(1 + vChoice("qos", 2))}
			sess.SavePacket(session.Outgoing, p)
		} else {
			sess.SavePacket(session.Outgoing, &packet.Pubrel{ID: id})
		}
	}
	conn := newVConn(true)
	cl := New()
	cl.Session = sess
	_, err := cl.Connect(mkConfig(conn, false))
	if err != nil {
		return
	}
	conn.in <- connack(packet.ConnectionAccepted, true)
	vQuiesce()
	if conn.alive() {
		vAssert(conn.sentCount() == 1+n, "CONNECT plus everything still recorded is sent")
		for k := 0; k < n && conn.sentCount() == 1+n; k++ {
			id, _ := packet.GetID(conn.sentAt(1 + k))
			vAssert(int(id) == k+1, "retransmission in the original order")
			if p, ok := conn.sentAt(1 + k).(*packet.Publish); ok {
				vAssert(kinds[k] == 0 && p.Dup, "a retransmitted publish is flagged duplicate")
			} else {
				vAssert(kinds[k] == 1 && conn.sentAt(1+k).Type() == packet.PUBREL, "a stored PUBREL is retransmitted as PUBREL")
			}
		}
	}
	out, _ := sess.AllPackets(session.Outgoing)
	vAssert(len(out) == n, "the session keeps everything until it is acknowledged")
	// the handshakes of the retransmitted packets complete through the resumed connection
	if conn.alive() && conn.sentCount() == 1+n {
		for k := 0; k < n && conn.alive(); k++ {
			id := packet.ID(k + 1)
			if p, ok := conn.sentAt(1 + k).(*packet.Publish); ok && p.Message.QOS == 2 {
				rels := conn.count(packet.PUBREL)
				conn.in <- &packet.Pubrec{ID: id}
				vQuiesce()
				if !conn.alive() {
					break
				}
				vAssert(conn.count(packet.PUBREL) == rels+1, "PUBREC for a retransmitted publish is answered by PUBREL")
				stored, _ := sess.LookupPacket(session.Outgoing, id)
				_, isRel := stored.(*packet.Pubrel)
				vAssert(isRel, "PUBREC replaces the recorded publish by the PUBREL, also after a resume")
				conn.in <- &packet.Pubcomp{ID: id}
			} else if ok {
				conn.in <- &packet.Puback{ID: id}
			} else {
				conn.in <- &packet.Pubcomp{ID: id}
			}
			vQuiesce()
			if conn.alive() {
				stored, _ := sess.LookupPacket(session.Outgoing, id)
				vAssert(stored == nil, "an acknowledged packet is removed from the session, also after a resume")
			}
		}
	}
	cl.Close()
	vCover("c09-resume-end")
}
