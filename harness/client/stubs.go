//go:build verif

package client

import (
	"errors"
	"net"
	"sync"
	"time"

	"github.com/256dpi/gomqtt/packet"
	"github.com/256dpi/gomqtt/transport"
)

var errVConnClosed = errors.New("vconn: closed")
var errVConnFault = errors.New("vconn: injected fault")
var errVDial = errors.New("vdialer: refused")

// vConn: nondeterministic transport.Conn; the harness thread plays the broker.
type vConn struct {
	mu      sync.Mutex
	in      chan packet.Generic
	sent    []packet.Generic
	closed  bool
	closeCh chan struct{}
	dead    bool
	faults  bool
	onSend  func(pkt packet.Generic)
	failNext int // the next n sends fail (deterministic fault)
}

func newVConn(faults bool) *vConn {
	return &vConn{in: make(chan packet.Generic, 8), closeCh: make(chan struct{}), faults: faults}
}

func (c *vConn) Send(pkt packet.Generic, async bool) error {
	c.mu.Lock()
	defer c.mu.Unlock()
	if c.closed || c.dead {
		return errVConnClosed
	}
	if c.failNext > 0 {
		c.failNext--
		c.dead = true
		c.closed = true
		close(c.closeCh)
		return errVConnFault
	}
	if c.faults && vFail("send") {
		// like BaseConn: a failed write closes the carrier, a pending Receive fails
		c.dead = true
		c.closed = true
		close(c.closeCh)
		return errVConnFault
	}
	if c.onSend != nil {
		c.onSend(pkt)
	}
	c.sent = append(c.sent, pkt)
	return nil
}

func (c *vConn) Receive() (packet.Generic, error) {
	select {
	case p, ok := <-c.in:
		if !ok {
			return nil, errVConnClosed
		}
		return p, nil
	case <-c.closeCh:
		return nil, errVConnClosed
	}
}

func (c *vConn) Close() error {
	c.mu.Lock()
	defer c.mu.Unlock()
	if !c.closed {
		c.closed = true
		close(c.closeCh)
	}
	return nil
}

func (c *vConn) isClosed() bool {
	c.mu.Lock()
	defer c.mu.Unlock()
	return c.closed
}

func (c *vConn) alive() bool {
	c.mu.Lock()
	defer c.mu.Unlock()
	return !c.closed && !c.dead
}

func (c *vConn) sentCount() int {
	c.mu.Lock()
	defer c.mu.Unlock()
	return len(c.sent)
}

func (c *vConn) sentAt(i int) packet.Generic {
	c.mu.Lock()
	defer c.mu.Unlock()
	return c.sent[i]
}

func (c *vConn) count(t packet.Type) int {
	c.mu.Lock()
	defer c.mu.Unlock()
	n := 0
	for _, p := range c.sent {
		if p.Type() == t {
			n++
		}
	}
	return n
}

func (c *vConn) SetReadLimit(limit int64)             {}
func (c *vConn) SetReadTimeout(timeout time.Duration) {}
func (c *vConn) SetMaxWriteDelay(delay time.Duration) {}
func (c *vConn) LocalAddr() net.Addr                  { return nil }
func (c *vConn) RemoteAddr() net.Addr                 { return nil }

// vDialer hands out prepared connections (or refuses).
type vDialer struct {
	conns []*vConn
	next  int
	refuse func() bool
}

func (d *vDialer) Dial(url string) (transport.Conn, error) {
	if d.refuse != nil && d.refuse() {
		return nil, errVDial
	}
	if d.next >= len(d.conns) {
		return nil, errVDial
	}
	c := d.conns[d.next]
	d.next++
	return c, nil
}

func mkConfig(conn *vConn, clean bool) *Config {
	cfg := NewConfigWithClientID("mqtt://broker", "c")
	cfg.CleanSession = clean
	cfg.KeepAlive = "0s"
	cfg.Dialer = &vDialer{conns: []*vConn{conn}}
	return cfg
}

func connack(code packet.ConnackCode, sp bool) *packet.Connack {
	c := packet.NewConnack()
	c.ReturnCode = code
	c.SessionPresent = sp
	return c
}
