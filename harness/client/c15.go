//go:build verif

package client

import "github.com/256dpi/gomqtt/packet"

// VerifC15ServiceFifo: queued service commands are carried out first-in first-out, also when
// the first connection dies right after its CONNACK while the dispatcher is already taking
// commands from the queue (every interleaving of the dispatcher and the dying client is
// explored). A command may be given up (future cancelled), never overtaken.
func VerifC15ServiceFifo() {
	d := &vDialer{}
	for i := 0; i < 4; i++ {
		d.conns = append(d.conns, newVConn(false))
	}
	s := NewService(8)
	cfg := NewConfigWithClientID("mqtt://broker", "svc")
	cfg.CleanSession = false
	cfg.KeepAlive = "0s"
	cfg.Dialer = d
	n := vLen("commands", 2, 3)
	var futs []GenericFuture
	for i := 0; i < n; i++ {
		futs = append(futs, s.Publish("t", []byte{byte(i)}, 0, false))
	}
	vAssert(s.Start(cfg), "Start")
	vQuiesce()
	c1 := d.conns[0]
	vAssert(c1.count(packet.CONNECT) == 1, "first attempt")
	// CONNACK and connection loss arrive together
	c1.in <- connack(packet.ConnectionAccepted, false)
	if vBool("drop") {
		c1.Close()
	}
	vQuiesce()
	// let the service reconnect if it has to
	for i := 0; i < 6 && d.next < 2 && !c1.alive(); i++ {
		if !vFireTimers() {
			break
		}
		vQuiesce()
	}
	var order []int
	collect := func(c *vConn) {
		for k := 0; k < c.sentCount(); k++ {
			if p, ok := c.sentAt(k).(*packet.Publish); ok {
				order = append(order, int(p.Message.Payload[0]))
			}
		}
	}
	collect(c1)
	if d.next >= 2 {
		c2 := d.conns[1]
		c2.in <- connack(packet.ConnectionAccepted, true)
		vQuiesce()
		collect(c2)
	}
	for k := 1; k < len(order); k++ {
		vAssert(order[k-1] < order[k], "queued commands are carried out in the order issued")
	}
	for i := 0; i < n; i++ {
		sent := false
		for _, o := range order {
			if o == i {
				sent = true
			}
		}
		if !sent {
			vAssert(futureState(futs[i]) == "canceled", "a command that is not carried out was given up, not lost")
		}
	}
	vAssert(s.Stop(true), "Stop")
	vCover("c15-servicefifo-end")
}
