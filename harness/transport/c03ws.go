//go:build verif

package transport

import (
	"errors"
	"io"
	"time"

	"github.com/256dpi/gomqtt/packet"
	"github.com/gorilla/websocket"
)

// wsModel is the environment of wsStream: what gorilla/websocket's documented API shows of
// the peer. In symbolic mode the four websocket.Conn methods wsStream uses (NextReader,
// NextWriter, Close, SetReadDeadline) are replaced by the verifWS* models below
// ("stubs" in checks.json); in replay mode a real gorilla connection over loopback is fed
// the same messages (c03ws_replay.go).
//
// Contract modelled (gorilla/websocket doc + conn.go): NextReader returns the next data
// message; a message's reader returns its bytes in arbitrary non-empty pieces with a nil
// error and then (0, io.EOF); an older reader returns io.EOF once a newer one exists; after
// the last message NextReader returns the connection's terminal error on every call: a
// *CloseError when the peer closed (also abnormally), another error otherwise. Messages may
// be empty. NextWriter's writer collects one message, which is on the wire at Close.
type wsModel struct {
	msgs      [][]byte
	kinds     []int
	next      int
	cur       *wsMsgReader
	endKind   int // 0 close frame, 1 protocol/network error
	closed    int
	sent      []byte
	sentMsgs  int
	sentKinds []int
	wr        *wsMsgWriter
	readers   int
	// stall scenario (C19): the peer holds the connection open without reading, so a data
	// write blocks inside the connection while holding gorilla's write lock until the
	// connection is closed; reads block until the read deadline expires (readEv)
	stall    bool
	wlock    chan struct{}
	closeCh  chan struct{}
	readEv   chan struct{}
	controls int
}

var errWSTimeout = errors.New("websocket: i/o timeout (model)")

func newWSStallModel() *wsModel {
	m := &wsModel{stall: true, wlock: make(chan struct{}, 1), closeCh: make(chan struct{}), readEv: make(chan struct{}, 1)}
	m.wlock <- struct{}{}
	return m
}

var errWSAbnormal = errors.New("websocket: bad frame (model)")
var errWSClosed = errors.New("websocket: use of closed connection (model)")

type wsMsgReader struct {
	m    *wsModel
	data []byte
}

func (r *wsMsgReader) Read(p []byte) (int, error) {
	if r.m.cur != r || len(r.data) == 0 {
		if r.m.cur == r {
			r.m.cur = nil
		}
		return 0, io.EOF
	}
	if len(p) == 0 {
		return 0, nil
	}
	n := vInt("wschunk", 1, 1<<30)
	vAssume(n <= len(r.data))
	vAssume(n <= len(p))
	copy(p, r.data[:n])
	r.data = r.data[n:]
	return n, nil
}

type wsMsgWriter struct {
	m    *wsModel
	kind int
	buf  []byte
	done bool
}

func (w *wsMsgWriter) Write(p []byte) (int, error) {
	if w.done || w.m.closed > 0 {
		return 0, errWSClosed
	}
	w.buf = append(w.buf, p...)
	return len(p), nil
}

func (w *wsMsgWriter) Close() error {
	if w.done {
		return errWSClosed
	}
	w.done = true
	if w.m.stall {
		// flushing the final frame: takes the write lock and blocks in the socket write
		<-w.m.wlock
		<-w.m.closeCh
		w.m.wlock <- struct{}{}
		return errWSClosed
	}
	if w.m.closed > 0 {
		return errWSClosed
	}
	w.m.sent = append(w.m.sent, w.buf...)
	w.m.sentMsgs++
	w.m.sentKinds = append(w.m.sentKinds, w.kind)
	return nil
}

func verifWSNextReader(c *websocket.Conn) (int, io.Reader, error) {
	m := wsCur
	if m.closed > 0 {
		return -1, nil, errWSClosed
	}
	if m.stall {
		select {
		case <-m.readEv:
			return -1, nil, errWSTimeout
		case <-m.closeCh:
			return -1, nil, errWSClosed
		}
	}
	if m.next >= len(m.msgs) {
		if m.endKind == 0 {
			return -1, nil, &websocket.CloseError{Code: websocket.CloseNormalClosure}
		}
		return -1, nil, errWSAbnormal
	}
	r := &wsMsgReader{m: m, data: m.msgs[m.next]}
	k := m.kinds[m.next]
	m.next++
	m.cur = r
	m.readers++
	return k, r, nil
}

func verifWSNextWriter(c *websocket.Conn, messageType int) (io.WriteCloser, error) {
	m := wsCur
	if m.closed > 0 {
		return nil, errWSClosed
	}
	w := &wsMsgWriter{m: m, kind: messageType}
	m.wr = w
	return w, nil
}

func verifWSClose(c *websocket.Conn) error {
	wsCur.closed++
	if wsCur.closeCh != nil && wsCur.closed == 1 {
		close(wsCur.closeCh)
	}
	return nil
}

// WriteControl (gorilla conn.go): waits for the write lock, for ever when the deadline is
// zero, until the deadline otherwise; then writes the control frame.
func verifWSWriteControl(c *websocket.Conn, messageType int, data []byte, deadline time.Time) error {
	m := wsCur
	if m.wlock != nil {
		if deadline.IsZero() {
			<-m.wlock
		} else {
			select {
			case <-m.wlock:
			case <-time.After(time.Until(deadline)):
				return errWSTimeout
			}
		}
		defer func() { m.wlock <- struct{}{} }()
	}
	if m.closed > 0 {
		return errWSClosed
	}
	m.controls++
	return nil
}

func verifWSSetReadDeadline(c *websocket.Conn, t time.Time) error { return nil }

var wsCur *wsModel

func c03wsPacket() (packet.Generic, []byte) {
	switch vChoice("ptype", 3) {
	case 0:
		id := vU16("id")
		vAssume(id != 0)
		return &packet.Puback{ID: packet.ID(id)}, []byte{0x40, 2, byte(id >> 8), byte(id)}
	case 1:
		return packet.NewPingreq(), []byte{0xC0, 0}
	}
	p := packet.NewPublish()
	p.Message.Topic = "t"
	p.Message.Payload = vBytes("payload", vParam("PAY", 3))
	p.Message.QOS = 1
	id := vU16("pid")
	vAssume(id != 0)
	p.ID = packet.ID(id)
	enc := []byte{0x32, byte(5 + len(p.Message.Payload)), 0, 1, 't', byte(id >> 8), byte(id)}
	enc = append(enc, p.Message.Payload...)
	return p, enc
}

func c03wsSame(a, b packet.Generic) {
	vAssert(a.Type() == b.Type(), "same packet type")
	switch x := a.(type) {
	case *packet.Puback:
		y, ok := b.(*packet.Puback)
		vAssert(ok && y.ID == x.ID, "same PUBACK")
	case *packet.Publish:
		y, ok := b.(*packet.Publish)
		vAssert(ok, "same PUBLISH type")
		if ok {
			vAssert(y.ID == x.ID && y.Message.QOS == x.Message.QOS && y.Dup == x.Dup && y.Message.Retain == x.Message.Retain, "same PUBLISH header fields")
			vAssertEqString(y.Message.Topic, x.Message.Topic, "same topic")
			vAssertEqBytes(y.Message.Payload, x.Message.Payload, "same payload")
		}
	}
}

// VerifC03WebSocketRead: P packets cut into up to M WebSocket messages at arbitrary places
// (a fraction of a packet, several packets, empty messages), each message handed out by
// gorilla's reader in arbitrary pieces: WebSocketConn's receive path (wsStream.Read under
// bufio under packet.Decoder under BaseConn.Receive) delivers exactly the packets, in order;
// a close (normal or abnormal) between packets ends the stream with an error after all
// packets, inside a packet with an error and never a packet; a non-binary message is refused
// with ErrNotBinary and nothing of it is used; any error closes the connection.
func VerifC03WebSocketRead() {
	P := vParam("P", 1)
	M := vParam("M", 3)
	var pkts []packet.Generic
	var stream []byte
	var ends []int
	for i := 0; i < P; i++ {
		p, enc := c03wsPacket()
		pkts = append(pkts, p)
		stream = append(stream, enc...)
		ends = append(ends, len(stream))
	}
	full := len(stream)
	cut := vBool("truncate")
	if cut {
		k := vInt("cut", 1, 1<<20)
		vAssume(k < full)
		stream = stream[:k]
	}
	m := &wsModel{endKind: vChoice("end", 2)}
	text := vChoice("text", M+1) // index of a text message, M = none
	textAt := -1
	pos := 0
	for k := 0; k < M; k++ {
		rem := len(stream) - pos
		n := rem
		if k < M-1 {
			n = vInt("msg", 0, 1<<20)
			vAssume(n <= rem)
		}
		kind := websocket.BinaryMessage
		if k == text {
			kind = websocket.TextMessage
			textAt = pos
		}
		m.msgs = append(m.msgs, stream[pos:pos+n])
		m.kinds = append(m.kinds, kind)
		pos += n
	}
	conn := NewBaseConn(&wsStream{conn: wsNewConn(m)})
	got := 0
	var lastErr error
	for i := 0; i < P+1; i++ {
		pkt, err := conn.Receive()
		if err != nil {
			vAssert(pkt == nil, "an error never comes with a packet")
			lastErr = err
			break
		}
		vAssert(got < P, "never more packets than were sent")
		if got < P {
			c03wsSame(pkts[got], pkt)
		}
		got++
	}
	vAssert(lastErr != nil, "the stream ends with an error")
	// packets that were completely delivered before the stream ended
	complete := 0
	limit := len(stream)
	if textAt >= 0 {
		limit = textAt
	}
	for i := 0; i < P; i++ {
		if ends[i] <= limit {
			complete++
		}
	}
	vAssert(got == complete, "exactly the packets that arrived completely (before a refused message) are delivered")
	if textAt >= 0 {
		vCover("c03-ws-text")
		vAssert(lastErr == ErrNotBinary, "a non-binary message is refused with ErrNotBinary")
	} else if !cut && m.endKind == 0 {
		vCover("c03-ws-complete")
		vAssert(lastErr == io.EOF, "a close between packets is a clean end of stream")
	} else if cut {
		vCover("c03-ws-truncated")
	}
	wsSettle(m)
	vAssert(wsClosed(m), "a receive error closes the connection")
	_, err := conn.Receive()
	vAssert(err != nil, "receives fail after an error")
	vAssert(conn.Send(packet.NewPingreq(), false) != nil, "flushed sends fail at once after an error")
	vCover("c03-ws-read-end")
}

// VerifC03WebSocketWrite: flushed and buffered sends through wsStream.Write reach the peer
// as binary messages whose concatenation is exactly the concatenation of the packets'
// encodings, in send order; Close delivers what buffered sends accepted; after Close sends
// fail.
func VerifC03WebSocketWrite() {
	P := vParam("P", 2)
	m := &wsModel{}
	conn := NewBaseConn(&wsStream{conn: wsNewConn(m)})
	conn.SetMaxWriteDelay(time.Hour)
	var want []byte
	for i := 0; i < P; i++ {
		p, ref := c03wsPacket()
		async := vBool("async")
		vAssert(conn.Send(p, async) == nil, "send succeeds")
		want = append(want, ref...)
		if !async {
			wsSettle(m)
			vAssertEqBytes(wsSent(m), want, "a flushed send puts everything accepted so far on the wire")
		}
	}
	vAssert(conn.Close() == nil, "close succeeds")
	wsSettle(m)
	vAssertEqBytes(wsSent(m), want, "wire bytes = concatenation of the encodings in send order, also for buffered sends at Close")
	for _, k := range wsSentKinds(m) {
		vAssert(k == websocket.BinaryMessage, "only binary messages are written")
	}
	vAssert(conn.Send(packet.NewPingreq(), false) != nil, "a flushed send after close fails at once")
	vCover("c03-ws-write-end")
}

// VerifC19WebSocketStall: a flushed send is stalled inside the WebSocket connection (the peer
// does not read), a receive is pending, and the read timeout expires: the receive returns
// the error, the connection is closed, and the stalled send fails - nobody stays blocked.
func VerifC19WebSocketStall() {
	if !vSymbolic() {
		return // a stalled socket write cannot be staged deterministically against the real library
	}
	m := newWSStallModel()
	conn := NewBaseConn(&wsStream{conn: wsNewConn(m)})
	conn.SetReadTimeout(time.Second)
	done := make(chan int, 2)
	var sendErr, recvErr error
	go func() {
		sendErr = conn.Send(&packet.Puback{ID: 1}, vBool("async"))
		if sendErr == nil { // buffered: the flush happens at the next flushed send
			sendErr = conn.Send(&packet.Puback{ID: 2}, false)
		}
		done <- 1
	}()
	go func() {
		_, recvErr = conn.Receive()
		done <- 2
	}()
	vQuiesce()
	m.readEv <- struct{}{} // the read deadline expires
	<-done
	<-done
	vAssert(recvErr != nil, "the pending receive returns the timeout error")
	vAssert(sendErr != nil, "the stalled send fails")
	vAssert(m.closed > 0, "the connection is closed")
	vCover("c19-ws-stall-end")
}
