//go:build verif && verifreplay

package transport

import (
	"net/http"
	"net/http/httptest"
	"strings"
	"sync"
	"time"

	"github.com/gorilla/websocket"
)

// replay mode: a real gorilla/websocket pair over loopback. The peer writes the model's
// messages (same boundaries and kinds) and then ends the connection as the model says; what
// the connection under test writes is collected from the peer's side.
type wsReal struct {
	mu    sync.Mutex
	peer  *websocket.Conn
	done  chan struct{}
	sent  []byte
	kinds []int
}

var wsReals = map[*wsModel]*wsReal{}

func wsNewConn(m *wsModel) *websocket.Conn {
	ch := make(chan *websocket.Conn, 1)
	srv := httptest.NewServer(http.HandlerFunc(func(w http.ResponseWriter, r *http.Request) {
		up := websocket.Upgrader{}
		c, err := up.Upgrade(w, r, nil)
		if err != nil {
			return
		}
		ch <- c
	}))
	peer, _, err := websocket.DefaultDialer.Dial("ws"+strings.TrimPrefix(srv.URL, "http"), nil)
	if err != nil {
		panic("replay: cannot dial loopback websocket: " + err.Error())
	}
	server := <-ch
	rs := &wsReal{peer: peer, done: make(chan struct{})}
	wsReals[m] = rs
	if len(m.msgs) > 0 {
		go func() {
			for i, msg := range m.msgs {
				peer.WriteMessage(m.kinds[i], msg)
			}
			if m.endKind == 0 {
				peer.WriteControl(websocket.CloseMessage, websocket.FormatCloseMessage(websocket.CloseNormalClosure, ""), time.Now().Add(time.Second))
			} else {
				peer.UnderlyingConn().Write([]byte{0x82, 0x00}) // unmasked client frame: protocol error
			}
		}()
	}
	go func() {
		for {
			k, b, err := peer.ReadMessage()
			if err != nil {
				close(rs.done)
				return
			}
			rs.mu.Lock()
			rs.sent = append(rs.sent, b...)
			rs.kinds = append(rs.kinds, k)
			rs.mu.Unlock()
		}
	}()
	return server
}

func wsSettle(m *wsModel) {
	rs := wsReals[m]
	select {
	case <-rs.done:
	case <-time.After(150 * time.Millisecond):
	}
}

func wsClosed(m *wsModel) bool {
	rs := wsReals[m]
	select {
	case <-rs.done:
		return true
	case <-time.After(2 * time.Second):
		return false
	}
}

func wsSent(m *wsModel) []byte {
	rs := wsReals[m]
	rs.mu.Lock()
	defer rs.mu.Unlock()
	return append([]byte(nil), rs.sent...)
}

func wsSentKinds(m *wsModel) []int {
	rs := wsReals[m]
	rs.mu.Lock()
	defer rs.mu.Unlock()
	return append([]int(nil), rs.kinds...)
}
