//go:build verif && !verifreplay

package transport

import "github.com/gorilla/websocket"

// symbolic mode: the websocket.Conn is never touched; its methods are replaced by the
// verifWS* models (see checks.json "stubs"), which act on wsCur.
func wsNewConn(m *wsModel) *websocket.Conn {
	wsCur = m
	return nil
}

func wsSettle(m *wsModel)          {}
func wsClosed(m *wsModel) bool     { return m.closed > 0 }
func wsSent(m *wsModel) []byte     { return m.sent }
func wsSentKinds(m *wsModel) []int { return m.sentKinds }
