//go:build verif

package transport

import (
	"errors"
	"sync"
	"time"

	"github.com/256dpi/gomqtt/packet"
)

var errCarrierClosed = errors.New("vcarrier: closed")
var errCarrierFault = errors.New("vcarrier: injected fault")

// vCarrier: nondeterministic Carrier. Written bytes are logged; reads deliver what the
// harness feeds, block otherwise, and fail once the carrier is closed.
type vCarrier struct {
	mu       sync.Mutex
	log      []byte
	logAtClose int
	closed   bool
	closes   int
	closeCh  chan struct{}
	readCh   chan []byte
	pending  []byte
	faults   bool
	deadlineFails bool
	stall    bool          // the peer does not read: writes block until the carrier is closed
	timeoutCh chan struct{} // the read deadline expires
}

var errCarrierTimeout = errors.New("vcarrier: i/o timeout")

func newVCarrier(faults bool) *vCarrier {
	return &vCarrier{closeCh: make(chan struct{}), readCh: make(chan []byte, 4), faults: faults}
}

func (c *vCarrier) Read(p []byte) (int, error) {
	if len(c.pending) == 0 {
		select {
		case b := <-c.readCh:
			c.pending = b
		case <-c.closeCh:
			return 0, errCarrierClosed
		case <-c.timeoutCh:
			return 0, errCarrierTimeout
		}
	}
	n := copy(p, c.pending)
	c.pending = c.pending[n:]
	return n, nil
}

func (c *vCarrier) Write(p []byte) (int, error) {
	if c.stall {
		<-c.closeCh
		return 0, errCarrierClosed
	}
	c.mu.Lock()
	defer c.mu.Unlock()
	if c.closed {
		return 0, errCarrierClosed
	}
	if c.faults && vFail("carrier-write") {
		return 0, errCarrierFault
	}
	c.log = append(c.log, p...)
	return len(p), nil
}

func (c *vCarrier) Close() error {
	c.mu.Lock()
	defer c.mu.Unlock()
	c.closes++
	if !c.closed {
		c.closed = true
		c.logAtClose = len(c.log)
		close(c.closeCh)
	}
	return nil
}

func (c *vCarrier) SetReadDeadline(t time.Time) error {
	if c.deadlineFails && vFail("deadline") {
		return errCarrierFault
	}
	return nil
}

func (c *vCarrier) snapshot() []byte {
	c.mu.Lock()
	defer c.mu.Unlock()
	return append([]byte(nil), c.log...)
}

// VerifC19Senders: concurrent senders, then Close; the wire carries whole packets, each
// sender's packets in order, and everything accepted before Close.
func VerifC19Senders() {
	car := newVCarrier(false)
	conn := NewBaseConn(car)
	conn.SetMaxWriteDelay(10 * time.Millisecond)
	done := make(chan int, 2)
	nA, nB := vLen("nA", 1, 2), vLen("nB", 1, 1)
	asyncs := []bool{vBool("asyncA1"), vBool("asyncA2"), vBool("asyncB1")}
	errs := make([]error, 3)
	go func() {
		for i := 0; i < nA; i++ {
			errs[i] = conn.Send(&packet.Puback{ID: packet.ID(1 + i)}, asyncs[i])
		}
		done <- 1
	}()
	go func() {
		for i := 0; i < nB; i++ {
			errs[2+i] = conn.Send(&packet.Puback{ID: packet.ID(11 + i)}, asyncs[2+i])
		}
		done <- 2
	}()
	<-done
	<-done
	for i := 0; i < 3; i++ {
		vAssert(errs[i] == nil, "sends on an open connection succeed")
	}
	vAssert(conn.Close() == nil, "close succeeds")
	log := car.snapshot()
	total := nA + nB
	vAssert(len(log) == 4*total, "every accepted packet is on the wire, nothing else")
	vAssert(car.logAtClose == 4*total, "everything accepted by earlier (buffered) sends is delivered before the carrier is closed")
	lastA, lastB := 0, 10
	for k := 0; k+4 <= len(log); k += 4 {
		vAssert(log[k] == 0x40 && log[k+1] == 2, "packets are intact (not interleaved)")
		id := int(log[k+2])<<8 | int(log[k+3])
		if id < 10 {
			vAssert(id == lastA+1, "packets of sender A in the order sent")
			lastA = id
		} else {
			vAssert(id == lastB+1, "packets of sender B in the order sent")
			lastB = id
		}
	}
	// after close nothing blocks or panics
	vAssert(conn.Send(packet.NewPingreq(), false) != nil, "a flushed send after close fails at once")
	_, rerr := conn.Receive()
	vAssert(rerr != nil, "receive after close fails")
	vCover("c19-senders-end")
}

// VerifC19CloseRace: Close from a third goroutine while a sender is active and a receiver
// is blocked; carrier failures injected.
func VerifC19CloseRace() {
	car := newVCarrier(true)
	conn := NewBaseConn(car)
	conn.SetMaxWriteDelay(10 * time.Millisecond)
	done := make(chan int, 3)
	var sendErr [2]error
	var recvErr error
	async := vBool("async")
	go func() {
		sendErr[0] = conn.Send(&packet.Puback{ID: 1}, async)
		sendErr[1] = conn.Send(&packet.Puback{ID: 2}, async)
		done <- 1
	}()
	go func() {
		_, recvErr = conn.Receive()
		done <- 2
	}()
	go func() {
		conn.Close()
		done <- 3
	}()
	<-done
	<-done
	<-done // nobody hangs: the pending receive is unblocked by the close
	vAssert(recvErr != nil, "a pending receive is unblocked by close with an error")
	log := car.snapshot()
	vAssert(len(log)%4 == 0, "only whole packets reach the wire")
	for k := 0; k+4 <= len(log); k += 4 {
		vAssert(log[k] == 0x40 && log[k+1] == 2, "packets are intact")
	}
	if !async {
		for i := 0; i < 2; i++ {
			if sendErr[i] == nil {
				vAssert(len(log) >= 4*(i+1), "a flushed send that reported success is on the wire")
			}
		}
	}
	vAssert(car.closed, "carrier closed")
	// flush timer (if any) may fire now; nothing panics, later calls fail
	vFireTimers()
	vQuiesce()
	vAssert(conn.Send(packet.NewPingreq(), false) != nil, "a flushed send after close fails at once")
	vCover("c19-closerace-end")
}

// VerifC19Errors: after a send error, a receive error or a failed deadline the connection is
// closed and later calls fail instead of blocking.
func VerifC19Errors() {
	car := newVCarrier(true)
	car.deadlineFails = true
	conn := NewBaseConn(car)
	conn.SetReadTimeout(time.Second)
	switch vChoice("first", 3) {
	case 0:
		err := conn.Send(&packet.Puback{ID: 1}, false)
		if err != nil {
			vCover("c19-send-error")
			vAssert(car.closed, "a send error closes the carrier")
		}
	case 1:
		car.readCh <- []byte{0x40, 0x02, 0x00} // truncated packet, then the peer goes away
		go func() { car.Close() }()
		_, err := conn.Receive()
		vAssert(err != nil, "a stream ending inside a packet is an error")
		vAssert(car.closed, "a receive error closes the carrier")
	case 2:
		car.readCh <- []byte{0x40, 0x02, 0x00, 0x07}
		pkt, err := conn.Receive()
		if err != nil {
			vCover("c19-deadline-error")
			vAssert(pkt == nil && car.closed, "a failed read deadline closes the carrier")
		} else {
			p, ok := pkt.(*packet.Puback)
			vAssert(ok && p.ID == 7, "packet received intact")
		}
	}
	if car.closed {
		vAssert(conn.Send(packet.NewPingreq(), false) != nil, "flushed sends fail at once after an error")
		_, err := conn.Receive()
		vAssert(err != nil, "receives fail after an error")
	}
	vCover("c19-errors-end")
}

// VerifC19CloseDuringSend: a buffered send has been accepted; Close is called from another
// goroutine while a second sender is in the middle of its Send. Whatever the interleaving,
// the packet accepted earlier is delivered before the carrier is closed.
func VerifC19CloseDuringSend() {
	car := newVCarrier(false)
	conn := NewBaseConn(car)
	conn.SetMaxWriteDelay(time.Hour)
	vAssert(conn.Send(&packet.Puback{ID: 1}, true) == nil, "buffered send accepted")
	done := make(chan int, 2)
	go func() {
		conn.Send(&packet.Puback{ID: 2}, vBool("asyncB"))
		done <- 1
	}()
	var cerr error
	go func() {
		cerr = conn.Close()
		done <- 2
	}()
	<-done
	<-done
	_ = cerr
	log := car.snapshot()
	vAssert(car.closed, "carrier closed")
	vAssert(car.logAtClose >= 4, "the packet accepted by the earlier buffered send is written before the carrier is closed")
	vAssert(len(log) >= 4 && log[0] == 0x40 && log[1] == 2 && log[2] == 0 && log[3] == 1, "and it is the first packet on the wire, intact")
	vAssert(len(log)%4 == 0, "only whole packets reach the wire")
	vCover("c19-closeduringsend-end")
}

// VerifC19BufferedAfterClose: after a close (by the application, by the peer, or after a
// receive error) buffered sends fail once the flush delay has elapsed, keep failing, nothing
// reaches the wire, and nothing blocks or panics.
func VerifC19BufferedAfterClose() {
	car := newVCarrier(false)
	conn := NewBaseConn(car)
	conn.SetMaxWriteDelay(10 * time.Millisecond)
	switch vChoice("how", 3) {
	case 0:
		vAssert(conn.Close() == nil, "close succeeds")
	case 1:
		car.Close() // the peer or the network ends the connection
	case 2:
		car.readCh <- []byte{0x40, 0x02, 0x00}
		go func() { car.Close() }()
		_, err := conn.Receive()
		vAssert(err != nil, "a stream ending inside a packet is an error")
	}
	e1 := conn.Send(&packet.Puback{ID: 1}, true) // may still be accepted into the buffer
	vFireTimers()
	vQuiesce()
	e2 := conn.Send(&packet.Puback{ID: 2}, true)
	vAssert(e1 != nil || e2 != nil, "buffered sends fail once the flush delay has elapsed")
	vFireTimers()
	vQuiesce()
	vAssert(conn.Send(&packet.Puback{ID: 3}, true) != nil, "and keep failing")
	vAssert(conn.Send(packet.NewPingreq(), false) != nil, "flushed sends fail at once")
	_, err := conn.Receive()
	vAssert(err != nil, "receives fail")
	vAssert(len(car.snapshot()) == 0, "nothing reaches the wire after the close")
	vAssert(car.closed, "carrier closed")
	vCover("c19-bufferedafterclose-end")
}

// VerifC19StalledSend: a send is stalled in the carrier (the peer does not read), a receive
// is pending, and the read timeout expires: the receive returns the error, the carrier is
// closed, the stalled send fails, and nobody stays blocked.
func VerifC19StalledSend() {
	car := newVCarrier(false)
	car.stall = true
	car.timeoutCh = make(chan struct{}, 1)
	conn := NewBaseConn(car)
	conn.SetReadTimeout(time.Second)
	conn.SetMaxWriteDelay(10 * time.Millisecond)
	done := make(chan int, 2)
	var sendErr, recvErr error
	go func() {
		sendErr = conn.Send(&packet.Puback{ID: 1}, vBool("async"))
		if sendErr == nil {
			sendErr = conn.Send(&packet.Puback{ID: 2}, false)
		}
		done <- 1
	}()
	go func() {
		_, recvErr = conn.Receive()
		done <- 2
	}()
	vQuiesce()
	car.timeoutCh <- struct{}{}
	<-done
	<-done
	vAssert(recvErr != nil, "the pending receive returns the timeout error")
	vAssert(sendErr != nil, "the stalled send fails")
	vAssert(car.closed, "the carrier is closed")
	vCover("c19-stalled-end")
}

// VerifC19SendWhileReceive: one goroutine sends while another receives on the same
// connection. Encoder and Decoder share one buffer pool; whatever the interleaving and
// whichever pooled buffer each side gets, the packet on the wire and the packet received are
// intact (a buffer is not given back while its bytes are still to be written).
func VerifC19SendWhileReceive() {
	car := newVCarrier(false)
	conn := NewBaseConn(car)
	conn.SetMaxWriteDelay(10 * time.Millisecond)
	id := vU16("id")
	vAssume(id != 0)
	car.readCh <- []byte{0x40, 0x02, 0x12, 0x34}
	done := make(chan int, 2)
	var sendErr, recvErr error
	var got packet.Generic
	go func() {
		sendErr = conn.Send(&packet.Puback{ID: packet.ID(id)}, vBool("async"))
		done <- 1
	}()
	go func() {
		got, recvErr = conn.Receive()
		done <- 2
	}()
	<-done
	<-done
	vAssert(sendErr == nil && recvErr == nil, "send and receive succeed")
	vAssert(conn.Close() == nil, "close succeeds")
	log := car.snapshot()
	vAssert(len(log) == 4 && log[0] == 0x40 && log[1] == 2 && log[2] == byte(id>>8) && log[3] == byte(id), "the packet sent reaches the wire intact")
	p, ok := got.(*packet.Puback)
	vAssert(ok && p.ID == 0x1234, "the packet received is intact")
	vCover("c19-sendwhilereceive-end")
}
