//go:build verif

package session

// VerifC18Cycle: the arithmetic fact behind "any 65535 consecutive allocations are pairwise
// distinct": succ is a single 65535-cycle. With f(x,k) = ((x-1+k) mod 65535)+1 for x in 1..65535:
//   f(x,0) = x,  succ(f(x,k)) = f(x,k+1),  f(x,j) != f(x,k) for 0 <= j < k <= 65534.
// Together with VerifC18Step (NextID advances by succ from every state) this gives the claim;
// the induction over k that glues the two is prose (DESIGN.md C18).
func VerifC18Cycle() {
	x := uint32(vU16("x"))
	vAssume(x != 0)
	k := uint32(vU16("k"))
	vAssume(k <= 65534)
	f := func(x, k uint32) uint32 { return (x-1+k)%65535 + 1 }
	vAssert(f(x, 0) == x, "f(x,0) = x")
	fk := f(x, k)
	vAssert(fk >= 1 && fk <= 65535, "f stays within 1..65535")
	var s uint32
	if fk == 65535 {
		s = 1
	} else {
		s = fk + 1
	}
	vAssert(s == f(x, k+1), "succ(f(x,k)) = f(x,k+1)")
	j := uint32(vU16("j"))
	vAssume(j < k)
	vAssert(f(x, j) != fk, "f(x,j) != f(x,k) for j < k <= 65534: no repeat within 65535 allocations")
	vCover("c18-cycle-end")
}
