//go:build verif

package session

import "github.com/256dpi/gomqtt/packet"

func succID(x packet.ID) packet.ID {
	if x == 65535 {
		return 1
	}
	return x + 1
}

// VerifC18Step: from every counter state, two consecutive ids are non-zero and id2 = succ(id1).
func VerifC18Step() {
	next := packet.ID(vU16("next"))
	c := NewIDCounterWithNext(next)
	id1 := c.NextID()
	id2 := c.NextID()
	vAssert(id1 != 0, "first id is never zero")
	vAssert(id2 != 0, "second id is never zero")
	vAssert(id2 == succID(id1), "id2 = succ(id1)")
	if next != 0 {
		vAssert(id1 == next, "id1 = next when next != 0")
	}
	c.Reset()
	vAssert(c.NextID() == 1, "reset restarts at 1")
	vCover("c18-step-end")
}
