//go:build verif

package session

import "github.com/256dpi/gomqtt/packet"

func succID(x packet.ID) packet.ID {
	if x == 65535 {
		return 1
	}
	return x + 1
}

// VerifC18Step: from every counter state, two consecutive ids are non-zero and id2 = succ(id1).
func VerifC18Step() {
	next := packet.ID(vU16("next"))
	c := NewIDCounterWithNext(next)
	id1 := c.NextID()
	id2 := c.NextID()
	vAssert(id1 != 0, "first id is never zero")
	vAssert(id2 != 0, "second id is never zero")
	vAssert(id2 == succID(id1), "id2 = succ(id1)")
	if next != 0 {
		vAssert(id1 == next, "id1 = next when next != 0")
	}
	c.Reset()
	vAssert(c.NextID() == 1, "reset restarts at 1")
	vCover("c18-step-end")
}

// ---- packet store as a map, per direction ----

type refStore struct {
	ids  []packet.ID
	pkts []packet.Generic
}

func (r *refStore) find(id packet.ID) int {
	for i := range r.ids {
		if r.ids[i] == id {
			return i
		}
	}
	return -1
}

func (r *refStore) save(id packet.ID, p packet.Generic) {
	if i := r.find(id); i >= 0 {
		r.pkts[i] = p
		return
	}
	r.ids = append(r.ids, id)
	r.pkts = append(r.pkts, p)
}

func (r *refStore) del(id packet.ID) {
	if i := r.find(id); i >= 0 {
		r.ids = append(r.ids[:i:i], r.ids[i+1:]...)
		r.pkts = append(r.pkts[:i:i], r.pkts[i+1:]...)
	}
}

func c18Packet() (packet.Generic, packet.ID, bool) {
	id := packet.ID(vU16("id"))
	switch vChoice("ptype", 6) {
	case 0:
		p := packet.NewPublish()
		p.ID = id
		return p, id, true
	case 1:
		return &packet.Pubrel{ID: id}, id, true
	case 2:
		return &packet.Subscribe{ID: id}, id, true
	case 3:
		return &packet.Puback{ID: id}, id, true
	case 4:
		return packet.NewPingreq(), 0, false // no id: ignored
	}
	return packet.NewConnect(), 0, false // no id: ignored
}

// VerifC18Store: histories of save / delete / reset on both directions of a MemorySession.
func VerifC18Store() {
	H := vParam("H", 3)
	s := NewMemorySession()
	var ref [2]refStore
	for i := 0; i < H; i++ {
		dir := Direction(vChoice("dir", 2))
		switch vChoice("op", 3) {
		case 0:
			p, id, has := c18Packet()
			vAssert(s.SavePacket(dir, p) == nil, "SavePacket")
			if has {
				ref[dir].save(id, p)
			}
		case 1:
			id := packet.ID(vU16("delid"))
			vAssert(s.DeletePacket(dir, id) == nil, "DeletePacket (also of an absent id)")
			ref[dir].del(id)
		case 2:
			vAssert(s.Reset() == nil, "Reset")
			ref[0], ref[1] = refStore{}, refStore{}
			vAssert(s.NextID() == 1, "a reset restarts the ids at 1")
		}
	}
	for d := 0; d < 2; d++ {
		dir := Direction(d)
		q := packet.ID(vU16("query"))
		got, err := s.LookupPacket(dir, q)
		vAssert(err == nil, "LookupPacket")
		if i := ref[d].find(q); i >= 0 {
			vAssert(got == ref[d].pkts[i], "lookup returns the last packet saved under the id in that direction")
		} else {
			vAssert(got == nil, "lookup of an id not stored in that direction returns nothing")
		}
		all, err := s.AllPackets(dir)
		vAssert(err == nil && len(all) == len(ref[d].ids), "listing has one entry per stored id of that direction")
		for k := range all {
			if k < len(ref[d].pkts) {
				vAssert(all[k] == ref[d].pkts[k], "listing returns the stored packets (in first-save order)")
			}
		}
	}
	vCover("c18-store-end")
}

// VerifC18Concurrent: two goroutines allocating ids and using the store concurrently.
func VerifC18Concurrent() {
	s := NewMemorySession()
	s.Counter = NewIDCounterWithNext(packet.ID(vU16("next")))
	done := make(chan packet.ID, 2)
	for g := 0; g < 2; g++ {
		go func(g int) {
			id := s.NextID()
			p := &packet.Pubrel{ID: id}
			s.SavePacket(Outgoing, p)
			got, _ := s.LookupPacket(Outgoing, id)
			vAssert(got == packet.Generic(p), "a packet saved under a fresh id is found under it (store operations are atomic)")
			if g == 0 {
				s.DeletePacket(Outgoing, id)
			}
			done <- id
		}(g)
	}
	a, b := <-done, <-done
	vAssert(a != 0 && b != 0, "ids are never zero, also when requested concurrently")
	vAssert(a != b, "concurrent requests get distinct ids")
	all, _ := s.AllPackets(Outgoing)
	vAssert(len(all) == 1, "exactly the undeleted packet remains")
	vCover("c18-concurrent-end")
}
