//go:build verif

package packet

// Reference codec written from the OASIS MQTT 3.1.1 text (sections 2 and 3).
// It shares no helper with coding.go / header.go / the per-type files.

// refVarintLen: number of bytes of the "remaining length" encoding (2.2.3).
func refVarintLen(x int) int {
	n := 0
	for {
		x = x / 128
		n++
		if x <= 0 {
			return n
		}
	}
}

type refW struct {
	b []byte
	n int
}

func (w *refW) u8(x byte) { w.b[w.n] = x; w.n++ }
func (w *refW) u16(x int) { w.u8(byte(x >> 8)); w.u8(byte(x)) }
func (w *refW) raw(p []byte) {
	copy(w.b[w.n:], p)
	w.n += len(p)
}
func (w *refW) str(s string) {
	copy(w.b[w.n:], s)
	w.n += len(s)
}
func (w *refW) lpStr(s string)   { w.u16(len(s)); w.str(s) }
func (w *refW) lpBytes(p []byte) { w.u16(len(p)); w.raw(p) }

// varint writes the remaining length by the spec's algorithm:
//   do { d = X MOD 128; X = X DIV 128; if X > 0 { d |= 128 }; output d } while X > 0
func (w *refW) varint(x int) {
	for {
		d := byte(x % 128)
		x = x / 128
		if x > 0 {
			d |= 128
		}
		w.u8(d)
		if x <= 0 {
			return
		}
	}
}

func refNew(first byte, rl int) *refW {
	w := &refW{b: make([]byte, 1+refVarintLen(rl)+rl)}
	w.u8(first)
	w.varint(rl)
	return w
}

func b2i(b bool) byte {
	if b {
		return 1
	}
	return 0
}

func refEncodePublish(p *Publish) []byte {
	rl := 2 + len(p.Message.Topic) + len(p.Message.Payload)
	if p.Message.QOS > 0 {
		rl += 2
	}
	w := refNew(3<<4|b2i(p.Dup)<<3|byte(p.Message.QOS)<<1|b2i(p.Message.Retain), rl)
	w.lpStr(p.Message.Topic)
	if p.Message.QOS > 0 {
		w.u16(int(p.ID))
	}
	w.raw(p.Message.Payload)
	return w.b
}

func refEncodeConnect(c *Connect) []byte {
	name := "MQTT"
	level := byte(4)
	if c.Version == 3 {
		name = "MQIsdp"
		level = 3
	}
	rl := 2 + len(name) + 1 + 1 + 2 + 2 + len(c.ClientID)
	var flags byte
	if c.CleanSession {
		flags |= 1 << 1
	}
	if c.Will != nil {
		flags |= 1 << 2
		flags |= byte(c.Will.QOS) << 3
		if c.Will.Retain {
			flags |= 1 << 5
		}
		rl += 2 + len(c.Will.Topic) + 2 + len(c.Will.Payload)
	}
	if len(c.Password) > 0 {
		flags |= 1 << 6
		rl += 2 + len(c.Password)
	}
	if len(c.Username) > 0 {
		flags |= 1 << 7
		rl += 2 + len(c.Username)
	}
	w := refNew(1<<4, rl)
	w.lpStr(name)
	w.u8(level)
	w.u8(flags)
	w.u16(int(c.KeepAlive))
	w.lpStr(c.ClientID)
	if c.Will != nil {
		w.lpStr(c.Will.Topic)
		w.lpBytes(c.Will.Payload)
	}
	if len(c.Username) > 0 {
		w.lpStr(c.Username)
	}
	if len(c.Password) > 0 {
		w.lpStr(c.Password)
	}
	return w.b
}

func refEncodeConnack(c *Connack) []byte {
	w := refNew(2<<4, 2)
	w.u8(b2i(c.SessionPresent))
	w.u8(byte(c.ReturnCode))
	return w.b
}

// PUBACK(4) PUBREC(5) PUBREL(6, flags 0010) PUBCOMP(7) UNSUBACK(11)
func refEncodeIdentified(t Type, id ID) []byte {
	var fl byte
	if t == PUBREL {
		fl = 2
	}
	w := refNew(byte(t)<<4|fl, 2)
	w.u16(int(id))
	return w.b
}

// PINGREQ(12) PINGRESP(13) DISCONNECT(14)
func refEncodeNaked(t Type) []byte {
	return refNew(byte(t)<<4, 0).b
}

func refEncodeSubscribe(s *Subscribe) []byte {
	rl := 2
	for i := range s.Subscriptions {
		rl += 2 + len(s.Subscriptions[i].Topic) + 1
	}
	w := refNew(8<<4|2, rl)
	w.u16(int(s.ID))
	for i := range s.Subscriptions {
		w.lpStr(s.Subscriptions[i].Topic)
		w.u8(byte(s.Subscriptions[i].QOS))
	}
	return w.b
}

func refEncodeSuback(s *Suback) []byte {
	w := refNew(9<<4, 2+len(s.ReturnCodes))
	w.u16(int(s.ID))
	for i := range s.ReturnCodes {
		w.u8(byte(s.ReturnCodes[i]))
	}
	return w.b
}

func refEncodeUnsubscribe(u *Unsubscribe) []byte {
	rl := 2
	for i := range u.Topics {
		rl += 2 + len(u.Topics[i])
	}
	w := refNew(10<<4|2, rl)
	w.u16(int(u.ID))
	for i := range u.Topics {
		w.lpStr(u.Topics[i])
	}
	return w.b
}
