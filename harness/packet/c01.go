//go:build verif

package packet

// C01: codec round trip; Len() = bytes written; layout = reference codec.
// Bounds: every string length 0..65535 and the PUBLISH payload length are symbolic
// (not enumerated); list lengths are case-split (see DESIGN.md C01).

const c01MaxPayload = 268435455

// c01Encode encodes p into a buffer that is `extra` bytes longer than p.Len(),
// checks length/layout, and returns the encoded bytes plus a closure input for the
// untouched-tail check (performed last by c01Tail).
type c01State struct {
	dst  []byte
	orig string
	n    int
}

func c01Encode(p Generic, ref []byte) (*c01State, []byte) {
	n := p.Len()
	vAssert(n == len(ref), "Len() equals the reference encoding's length")
	extra := vInt("extra", 0, 3)
	dst := vBytes("dst", 1<<29)
	vAssume(len(dst) == n+extra)
	orig := string(dst)
	w, err := p.Encode(dst)
	vAssert(err == nil, "encode of a well-formed packet succeeds")
	vAssert(w == n, "Encode writes exactly Len() bytes")
	vAssertEqBytes(dst[:n], ref, "encoded bytes equal the reference encoding")
	dn, dt := DetectPacket(dst[:n])
	vAssert(dn == n, "DetectPacket length")
	vAssert(dt == p.Type(), "DetectPacket type")
	return &c01State{dst, orig, n}, dst[:n]
}

func c01Tail(st *c01State) {
	vCover("c01-roundtrip-end")
	j := vInt("j", 0, 2)
	k := st.n + j
	vAssume(k < len(st.dst))
	vAssert(st.dst[k] == st.orig[k], "bytes beyond Len() are left untouched")
	vCover("c01-tail-checked")
}

func c01Short(p Generic) {
	// a destination one byte too short is refused (no panic, an error)
	n := p.Len()
	short := vBytes("short", 1<<29)
	vAssume(len(short) < n)
	_, err := p.Encode(short)
	vAssert(err != nil, "encode into a too-short buffer returns an error")
}

func VerifC01Publish() {
	p := NewPublish()
	p.Message.Topic = vString("topic", 65535)
	p.Message.Payload = vBytes("payload", c01MaxPayload)
	p.Message.QOS = QOS(vU8("qos"))
	p.Message.Retain = vBool("retain")
	p.Dup = vBool("dup")
	p.ID = ID(vU16("id"))
	vAssume(len(p.Message.Topic) > 0)
	vAssume(p.Message.QOS <= 2)
	if p.Message.QOS > 0 {
		vAssume(p.ID != 0)
	} else {
		vAssume(p.ID == 0)
	}
	vAssume(2+len(p.Message.Topic)+2+len(p.Message.Payload) <= c01MaxPayload)
	st, buf := c01Encode(p, refEncodePublish(p))
	q := NewPublish()
	r, err := q.Decode(buf)
	vAssert(err == nil, "decode of the encoding succeeds")
	vAssert(r == len(buf), "decode consumes all bytes")
	vAssertEqString(q.Message.Topic, p.Message.Topic, "topic round-trips")
	vAssertEqBytes(q.Message.Payload, p.Message.Payload, "payload round-trips")
	vAssert(q.Message.QOS == p.Message.QOS, "qos round-trips")
	vAssert(q.Message.Retain == p.Message.Retain, "retain round-trips")
	vAssert(q.Dup == p.Dup, "dup round-trips")
	vAssert(q.ID == p.ID, "id round-trips")
	c01Tail(st)
}

func VerifC01Connect() {
	p := NewConnect()
	p.ClientID = vString("cid", 65535)
	p.KeepAlive = vU16("ka")
	p.Username = vString("user", 65535)
	p.Password = vString("pass", 65535)
	p.CleanSession = vBool("clean")
	switch vChoice("version", 3) {
	case 0:
		p.Version = 0
	case 1:
		p.Version = 3
	case 2:
		p.Version = 4
	}
	if vBool("haswill") {
		p.Will = &Message{Topic: vString("wtopic", 65535), Payload: vBytes("wpayload", 65535), QOS: QOS(vU8("wqos")), Retain: vBool("wretain")}
		vAssume(len(p.Will.Topic) > 0)
		vAssume(p.Will.QOS <= 2)
	}
	if len(p.ClientID) == 0 {
		vAssume(p.CleanSession)
	}
	if len(p.Password) > 0 {
		vAssume(len(p.Username) > 0)
	}
	origVersion := p.Version
	st, buf := c01Encode(p, refEncodeConnect(p))
	q := NewConnect()
	r, err := q.Decode(buf)
	vAssert(err == nil, "decode of the encoding succeeds")
	vAssert(r == len(buf), "decode consumes all bytes")
	vAssertEqString(q.ClientID, p.ClientID, "client id round-trips")
	vAssert(q.KeepAlive == p.KeepAlive, "keep alive round-trips")
	vAssertEqString(q.Username, p.Username, "username round-trips")
	vAssertEqString(q.Password, p.Password, "password round-trips")
	vAssert(q.CleanSession == p.CleanSession, "clean session round-trips")
	if origVersion == 0 {
		vAssert(q.Version == 4, "version 0 encodes as 4")
	} else {
		vAssert(q.Version == origVersion, "version round-trips")
	}
	if p.Will == nil {
		vAssert(q.Will == nil, "absent will stays absent")
	} else {
		vAssert(q.Will != nil, "will present after decode")
		if q.Will != nil {
			vAssertEqString(q.Will.Topic, p.Will.Topic, "will topic round-trips")
			vAssertEqBytes(q.Will.Payload, p.Will.Payload, "will payload round-trips")
			vAssert(q.Will.QOS == p.Will.QOS, "will qos round-trips")
			vAssert(q.Will.Retain == p.Will.Retain, "will retain round-trips")
		}
	}
	c01Tail(st)
}

func VerifC01Connack() {
	p := NewConnack()
	p.SessionPresent = vBool("sp")
	p.ReturnCode = ConnackCode(vU8("rc"))
	vAssume(p.ReturnCode <= 5)
	st, buf := c01Encode(p, refEncodeConnack(p))
	q := NewConnack()
	r, err := q.Decode(buf)
	vAssert(err == nil, "decode of the encoding succeeds")
	vAssert(r == len(buf), "decode consumes all bytes")
	vAssert(q.SessionPresent == p.SessionPresent, "session present round-trips")
	vAssert(q.ReturnCode == p.ReturnCode, "return code round-trips")
	c01Tail(st)
}

func VerifC01Identified() {
	id := ID(vU16("id"))
	vAssume(id != 0)
	var p, q Generic
	var t Type
	switch vChoice("type", 5) {
	case 0:
		p, q, t = &Puback{ID: id}, NewPuback(), PUBACK
	case 1:
		p, q, t = &Pubrec{ID: id}, NewPubrec(), PUBREC
	case 2:
		p, q, t = &Pubrel{ID: id}, NewPubrel(), PUBREL
	case 3:
		p, q, t = &Pubcomp{ID: id}, NewPubcomp(), PUBCOMP
	case 4:
		p, q, t = &Unsuback{ID: id}, NewUnsuback(), UNSUBACK
	}
	vAssert(p.Type() == t, "Type()")
	st, buf := c01Encode(p, refEncodeIdentified(t, id))
	r, err := q.Decode(buf)
	vAssert(err == nil, "decode of the encoding succeeds")
	vAssert(r == len(buf), "decode consumes all bytes")
	qid, ok := GetID(q)
	vAssert(ok, "GetID knows the type")
	vAssert(qid == id, "id round-trips")
	c01Tail(st)
}

func VerifC01Naked() {
	var p, q Generic
	var t Type
	switch vChoice("type", 3) {
	case 0:
		p, q, t = NewPingreq(), NewPingreq(), PINGREQ
	case 1:
		p, q, t = NewPingresp(), NewPingresp(), PINGRESP
	case 2:
		p, q, t = NewDisconnect(), NewDisconnect(), DISCONNECT
	}
	st, buf := c01Encode(p, refEncodeNaked(t))
	r, err := q.Decode(buf)
	vAssert(err == nil, "decode of the encoding succeeds")
	vAssert(r == len(buf), "decode consumes all bytes")
	vAssert(q.Type() == t, "type")
	c01Tail(st)
}

func VerifC01Subscribe() {
	p := NewSubscribe()
	p.ID = ID(vU16("id"))
	vAssume(p.ID != 0)
	n := vLen("nsubs", 1, 3)
	for i := 0; i < n; i++ {
		s := Subscription{Topic: vString("filter", 65535), QOS: QOS(vU8("sqos"))}
		vAssume(s.QOS <= 2)
		p.Subscriptions = append(p.Subscriptions, s)
	}
	st, buf := c01Encode(p, refEncodeSubscribe(p))
	q := NewSubscribe()
	r, err := q.Decode(buf)
	vAssert(err == nil, "decode of the encoding succeeds")
	vAssert(r == len(buf), "decode consumes all bytes")
	vAssert(q.ID == p.ID, "id round-trips")
	vAssert(len(q.Subscriptions) == n, "number of subscriptions round-trips")
	if len(q.Subscriptions) == n {
		for i := 0; i < n; i++ {
			vAssertEqString(q.Subscriptions[i].Topic, p.Subscriptions[i].Topic, "filter round-trips")
			vAssert(q.Subscriptions[i].QOS == p.Subscriptions[i].QOS, "requested qos round-trips")
		}
	}
	c01Tail(st)
}

func VerifC01Suback() {
	p := NewSuback()
	p.ID = ID(vU16("id"))
	vAssume(p.ID != 0)
	n := vLen("ncodes", 1, 4)
	for i := 0; i < n; i++ {
		rc := QOS(vU8("code"))
		vAssume(rc <= 2 || rc == 0x80)
		p.ReturnCodes = append(p.ReturnCodes, rc)
	}
	st, buf := c01Encode(p, refEncodeSuback(p))
	q := NewSuback()
	r, err := q.Decode(buf)
	vAssert(err == nil, "decode of the encoding succeeds")
	vAssert(r == len(buf), "decode consumes all bytes")
	vAssert(q.ID == p.ID, "id round-trips")
	vAssert(len(q.ReturnCodes) == n, "number of return codes round-trips")
	if len(q.ReturnCodes) == n {
		for i := 0; i < n; i++ {
			vAssert(q.ReturnCodes[i] == p.ReturnCodes[i], "return code round-trips")
		}
	}
	c01Tail(st)
}

func VerifC01Unsubscribe() {
	p := NewUnsubscribe()
	p.ID = ID(vU16("id"))
	vAssume(p.ID != 0)
	n := vLen("ntopics", 1, 3)
	for i := 0; i < n; i++ {
		p.Topics = append(p.Topics, vString("filter", 65535))
	}
	st, buf := c01Encode(p, refEncodeUnsubscribe(p))
	q := NewUnsubscribe()
	r, err := q.Decode(buf)
	vAssert(err == nil, "decode of the encoding succeeds")
	vAssert(r == len(buf), "decode consumes all bytes")
	vAssert(q.ID == p.ID, "id round-trips")
	vAssert(len(q.Topics) == n, "number of topics round-trips")
	if len(q.Topics) == n {
		for i := 0; i < n; i++ {
			vAssertEqString(q.Topics[i], p.Topics[i], "filter round-trips")
		}
	}
	c01Tail(st)
}

// VerifC01Header: the fixed-header kernel for every remaining length 0..268435455.
func VerifC01Header() {
	rl := vInt("rl", 0, 268435455)
	t := Type(vU8("type"))
	vAssume(t >= 1 && t <= 14)
	hl := headerLen(rl)
	vAssert(hl == 1+refVarintLen(rl), "headerLen = 1 + reference varint length")
	dst := vBytes("dst", 16)
	vAssume(len(dst) >= hl)
	n, err := encodeHeader(dst, 0, rl, hl, t)
	vAssert(err == nil, "encodeHeader succeeds")
	vAssert(n == hl, "encodeHeader writes headerLen bytes")
	w := &refW{b: make([]byte, hl)}
	w.u8(byte(t)<<4 | (t.defaultFlags() & 0xf))
	w.varint(rl)
	vAssertEqBytes(dst[:hl], w.b, "header bytes = spec algorithm")
	v, vn, verr := readVarint(dst[1:hl], t)
	vAssert(verr == nil, "readVarint of written varint succeeds")
	vAssert(vn == hl-1, "readVarint consumes the varint")
	vAssert(int(v) == rl, "remaining length round-trips")
	vCover("c01-header-end")
}

// VerifC01HeaderReject: remaining length above the protocol maximum is refused; short buffers error.
func VerifC01HeaderReject() {
	rl := vInt("rl", 268435456, 1<<40)
	dst := vBytes("dst", 16)
	_, err := encodeHeader(dst, 0, rl, 0, PUBLISH)
	vAssert(err != nil, "remaining length > 268435455 is refused")
	rl2 := vInt("rl2", 0, 268435455)
	short := vBytes("short", 5)
	vAssume(len(short) < headerLen(rl2))
	_, err = encodeHeader(short, 0, rl2, 0, PUBLISH)
	vAssert(err != nil, "too-short destination is refused")
	vCover("c01-header-reject-end")
}
