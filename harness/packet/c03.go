//go:build verif

package packet

import (
	"errors"
	"io"
)

// vReader: a byte stream delivered in symbolically sized chunks (any fragmentation).
type vReader struct {
	data  []byte
	pos   int
	reads int
	fail  bool // a read error instead of EOF at the end
	whole bool // deliver as much as fits per read (fragmentation is not the subject)
}

var errVRead = errors.New("vreader: injected error")

func (r *vReader) Read(p []byte) (int, error) {
	r.reads++
	rem := len(r.data) - r.pos
	if rem == 0 {
		if r.fail {
			return 0, errVRead
		}
		return 0, io.EOF
	}
	if len(p) == 0 {
		return 0, nil
	}
	var n int
	if r.whole { // no fragmentation: as much as fits
		n = rem
		if len(p) < n {
			n = len(p)
		}
	} else {
		n = vInt("chunk", 1, 1<<30)
		vAssume(n <= rem)
		vAssume(n <= len(p))
	}
	copy(p, r.data[r.pos:r.pos+n])
	r.pos += n
	return n, nil
}

// vWriter: records what reaches the wire.
type vWriter struct {
	log    []byte
	writes int
	faults bool
}

var errVWrite = errors.New("vwriter: injected error")

func (w *vWriter) Write(p []byte) (int, error) {
	w.writes++
	if w.faults && vFail("write") {
		return 0, errVWrite
	}
	w.log = append(w.log, p...)
	return len(p), nil
}

func c03Packet(i int) (Generic, []byte) {
	switch vChoice("ptype", 3) {
	case 0:
		p := &Puback{ID: ID(vU16("id"))}
		vAssume(p.ID != 0)
		return p, refEncodeIdentified(PUBACK, p.ID)
	case 1:
		return NewPingreq(), refEncodeNaked(PINGREQ)
	}
	p := NewPublish()
	p.Message.Topic = "t"
	p.Message.Payload = vBytes("payload", vParam("PAY", 3))
	p.Message.QOS = 1
	p.ID = ID(vU16("pid"))
	vAssume(p.ID != 0)
	return p, refEncodePublish(p)
}

func c03Same(a, b Generic) {
	vAssert(a.Type() == b.Type(), "same packet type")
	switch x := a.(type) {
	case *Puback:
		y, ok := b.(*Puback)
		vAssert(ok && y.ID == x.ID, "same PUBACK")
	case *Publish:
		y, ok := b.(*Publish)
		vAssert(ok, "same PUBLISH type")
		if ok {
			vAssert(y.ID == x.ID && y.Message.QOS == x.Message.QOS && y.Dup == x.Dup && y.Message.Retain == x.Message.Retain, "same PUBLISH header fields")
			vAssertEqString(y.Message.Topic, x.Message.Topic, "same topic")
			vAssertEqBytes(y.Message.Payload, x.Message.Payload, "same payload")
		}
	}
}

// VerifC03Read: any fragmentation of the byte stream yields the same packets in order;
// a clean end gives io.EOF, an end inside a packet an error and never a packet.
func VerifC03Read() {
	P := vParam("P", 2)
	var pkts []Generic
	var stream []byte
	for i := 0; i < P; i++ {
		p, enc := c03Packet(i)
		pkts = append(pkts, p)
		stream = append(stream, enc...)
	}
	cut := vBool("truncate")
	full := len(stream)
	if cut {
		k := vInt("cut", 1, 1<<20)
		vAssume(k < full)
		stream = stream[:k]
	}
	r := &vReader{data: stream}
	dec := NewDecoder(r)
	got := 0
	for i := 0; i < P+1; i++ {
		pkt, err := dec.Read()
		if err != nil {
			vAssert(pkt == nil, "an error never comes with a packet")
			if !cut {
				vAssert(got == P, "no error before all packets were delivered")
				vAssert(err == io.EOF, "a clean end of stream is io.EOF")
			} else {
				vAssert(got < P, "a truncated stream cannot deliver all packets")
			}
			break
		}
		vAssert(got < P, "never more packets than were sent")
		if got < P {
			c03Same(pkts[got], pkt)
		}
		got++
	}
	if !cut {
		vAssert(got == P, "every packet is delivered")
		vCover("c03-read-complete")
	} else {
		vCover("c03-read-truncated")
	}
	vCover("c03-read-end")
}

// VerifC03Limit: a packet longer than the read limit is refused before it is buffered.
func VerifC03Limit() {
	limit := vInt("limit", 1, 1<<20)
	payload := vBytes("payload", 1<<22)
	p := NewPublish()
	p.Message.Topic = "t"
	p.Message.Payload = payload
	enc := refEncodePublish(p)
	// the accepted side is bounded to small packets (reading a large body takes one bufio
	// refill per 4096 bytes); the refused side covers every size up to 4 MiB
	if len(enc) <= limit {
		vAssume(len(enc) <= 16)
	}
	r := &vReader{data: enc, whole: true}
	dec := NewDecoder(r)
	dec.SetReadLimit(int64(limit))
	pkt, err := dec.Read()
	if len(enc) > limit {
		vCover("c03-limit-exceeded")
		vAssert(err == ErrReadLimitExceeded && pkt == nil, "a packet longer than the read limit is refused")
		vAssert(r.pos <= 4096, "and refused before its body is requested from the transport (only the buffered read-ahead was taken)")
	} else {
		vCover("c03-limit-ok")
		vAssert(err == nil && pkt != nil, "a packet within the limit is delivered")
	}
	vCover("c03-limit-end")
}

// VerifC03Write: flushed and buffered sends reach the wire as the exact concatenation of
// the packets' encodings, in send order.
func VerifC03Write() {
	P := vParam("P", 2)
	w := &vWriter{}
	enc := NewEncoder(w)
	enc.SetMaxWriteDelay(10000000)
	var want []byte
	for i := 0; i < P; i++ {
		p, ref := c03Packet(i)
		async := vBool("async")
		err := enc.Write(p, async)
		vAssert(err == nil, "write succeeds")
		want = append(want, ref...)
		if !async {
			vAssertEqBytes(w.log, want, "a flushed send puts everything accepted so far on the wire")
		}
		if vBool("timer") {
			vFireTimers() // the flush timer may fire between any two sends
			vQuiesce()
		}
	}
	vAssert(enc.Flush() == nil, "flush succeeds")
	vAssertEqBytes(w.log, want, "wire bytes = concatenation of the encodings in send order")
	vCover("c03-write-end")
}

// VerifC03WriteBig: a packet that does not fit the 4096-byte write buffer (PUBLISH with a
// payload of symbolic length up to 8192 bytes), sent flushed or buffered between small
// buffered sends: the wire still carries the exact concatenation of the encodings in send
// order (nothing buffered earlier is overtaken, nothing is lost or duplicated at the
// buffer boundary).
func VerifC03WriteBig() {
	w := &vWriter{}
	enc := NewEncoder(w)
	enc.SetMaxWriteDelay(10000000)
	var want []byte
	send := func(p Generic, ref []byte, async bool) {
		vAssert(enc.Write(p, async) == nil, "write succeeds")
		want = append(want, ref...)
		if !async {
			vAssertEqBytes(w.log, want, "a flushed send puts everything accepted so far on the wire")
		}
	}
	if vBool("before") {
		id := vU16("id")
		vAssume(id != 0)
		send(&Puback{ID: ID(id)}, refEncodeIdentified(PUBACK, ID(id)), true)
	}
	big := NewPublish()
	big.Message.Topic = "t"
	big.Message.Payload = vBytes("big", 8192)
	send(big, refEncodePublish(big), vBool("asyncbig"))
	if vBool("timer") {
		vFireTimers()
		vQuiesce()
	}
	if vBool("after") {
		send(NewPingreq(), refEncodeNaked(PINGREQ), vBool("asyncafter"))
	}
	vAssert(enc.Flush() == nil, "flush succeeds")
	vAssertEqBytes(w.log, want, "wire bytes = concatenation of the encodings in send order")
	vCover("c03-writebig-end")
}
