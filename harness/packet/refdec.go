//go:build verif

package packet

// Reference decoder written from the OASIS MQTT 3.1.1 text. It is strict on every MUST
// except for the leniencies that gomqtt's decoder is allowed (DESIGN.md, C02):
//   L1 protocol "MQIsdp"/3 accepted next to "MQTT"/4
//   L2 string contents are not checked (UTF-8, NUL, wildcards, empty filters); an empty
//      PUBLISH topic or will topic is NOT a leniency (the library cannot re-encode it)
//   L3 non-minimal remaining-length encodings are accepted
//   L4 bytes after the header-declared extent are ignored
//   L5 surplus bytes inside the extent after the last CONNECT / CONNACK field are ignored
//   L6 DUP=1 with QoS 0 is accepted
// It never looks at a byte outside the packet's declared extent.

type refHdr struct {
	ok    bool
	flags byte
	hl    int // header length
	rl    int // remaining length
}

// refHeader parses the fixed header for the expected type t.
func refHeader(src []byte, t Type) refHdr {
	if len(src) < 2 {
		return refHdr{}
	}
	if Type(src[0]>>4) != t {
		return refHdr{}
	}
	flags := src[0] & 0x0f
	// remaining length: up to four bytes, 7 bits each, least significant group first
	rl := 0
	mult := 1
	i := 1
	for {
		if i >= len(src) || i > 4 {
			return refHdr{}
		}
		d := src[i]
		rl += int(d&127) * mult
		mult *= 128
		i++
		if d&128 == 0 {
			break
		}
	}
	if rl > len(src)-i {
		return refHdr{}
	}
	return refHdr{ok: true, flags: flags, hl: i, rl: rl}
}

// refR reads fields from the declared extent only.
type refR struct {
	b  []byte
	n  int
	ok bool
}

func (r *refR) u8() byte {
	if !r.ok || r.n+1 > len(r.b) {
		r.ok = false
		return 0
	}
	x := r.b[r.n]
	r.n++
	return x
}

func (r *refR) u16() int {
	hi := r.u8()
	lo := r.u8()
	return int(hi)<<8 | int(lo)
}

func (r *refR) lp() []byte {
	l := r.u16()
	if !r.ok || r.n+l > len(r.b) {
		r.ok = false
		return nil
	}
	s := r.b[r.n : r.n+l]
	r.n += l
	return s
}

func (r *refR) rest() []byte {
	if !r.ok {
		return nil
	}
	s := r.b[r.n:]
	r.n = len(r.b)
	return s
}

type refPublish struct {
	ok          bool
	dup, retain bool
	qos         byte
	id          int
	topic       []byte
	payload     []byte
	total       int
}

func refDecodePublish(src []byte) refPublish {
	h := refHeader(src, PUBLISH)
	if !h.ok {
		return refPublish{}
	}
	p := refPublish{dup: h.flags&8 != 0, retain: h.flags&1 != 0, qos: (h.flags >> 1) & 3}
	if p.qos == 3 {
		return refPublish{}
	}
	r := &refR{b: src[h.hl : h.hl+h.rl], ok: true}
	p.topic = r.lp()
	if !r.ok || len(p.topic) == 0 {
		return refPublish{}
	}
	if p.qos > 0 {
		p.id = r.u16()
		if !r.ok || p.id == 0 {
			return refPublish{}
		}
	}
	p.payload = r.rest()
	p.ok = true
	p.total = h.hl + h.rl
	return p
}

type refConnect struct {
	ok                     bool
	version                byte
	clean                  bool
	keepAlive              int
	cid                    []byte
	hasWill                bool
	willQOS                byte
	willRetain             bool
	willTopic, willPayload []byte
	hasUser, hasPass       bool
	user, pass             []byte
	consumed               int
}

// refDecodeConnect: with overread=false fields must lie inside the declared extent (the
// specification); with overread=true they may extend into the bytes that follow the packet
// in the buffer — this models known finding C02-connect-overread and nothing else.
func refDecodeConnect(src []byte, overread bool) refConnect {
	h := refHeader(src, CONNECT)
	if !h.ok || h.flags != 0 {
		return refConnect{}
	}
	r := &refR{b: src[h.hl : h.hl+h.rl], ok: true}
	if overread {
		r.b = src[h.hl:]
	}
	name := r.lp()
	level := r.u8()
	if !r.ok {
		return refConnect{}
	}
	if !((level == 4 && string(name) == "MQTT") || (level == 3 && string(name) == "MQIsdp")) {
		return refConnect{}
	}
	fl := r.u8()
	if !r.ok {
		return refConnect{}
	}
	c := refConnect{version: level}
	if fl&1 != 0 {
		return refConnect{}
	}
	c.clean = fl&2 != 0
	c.hasWill = fl&4 != 0
	c.willQOS = (fl >> 3) & 3
	c.willRetain = fl&32 != 0
	c.hasPass = fl&64 != 0
	c.hasUser = fl&128 != 0
	if c.willQOS == 3 {
		return refConnect{}
	}
	if !c.hasWill && (c.willQOS != 0 || c.willRetain) {
		return refConnect{}
	}
	if c.hasPass && !c.hasUser {
		return refConnect{}
	}
	c.keepAlive = r.u16()
	c.cid = r.lp()
	if !r.ok {
		return refConnect{}
	}
	if len(c.cid) == 0 && !c.clean {
		return refConnect{}
	}
	if c.hasWill {
		c.willTopic = r.lp()
		c.willPayload = r.lp()
		if !r.ok || len(c.willTopic) == 0 {
			return refConnect{}
		}
	}
	if c.hasUser {
		c.user = r.lp()
	}
	if c.hasPass {
		c.pass = r.lp()
	}
	if !r.ok {
		return refConnect{}
	}
	c.ok = true
	c.consumed = h.hl + r.n
	return c
}

type refConnack struct {
	ok bool
	sp bool
	rc byte
}

func refDecodeConnack(src []byte) refConnack {
	h := refHeader(src, CONNACK)
	if !h.ok || h.flags != 0 {
		return refConnack{}
	}
	r := &refR{b: src[h.hl : h.hl+h.rl], ok: true}
	af := r.u8()
	rc := r.u8()
	if !r.ok || af&0xfe != 0 || rc > 5 {
		return refConnack{}
	}
	return refConnack{ok: true, sp: af&1 != 0, rc: rc}
}

type refIdent struct {
	ok bool
	id int
}

func refDecodeIdentified(src []byte, t Type) refIdent {
	h := refHeader(src, t)
	want := byte(0)
	if t == PUBREL {
		want = 2
	}
	if !h.ok || h.flags != want || h.rl != 2 {
		return refIdent{}
	}
	id := int(src[h.hl])<<8 | int(src[h.hl+1])
	if id == 0 {
		return refIdent{}
	}
	return refIdent{ok: true, id: id}
}

func refDecodeNaked(src []byte, t Type) bool {
	h := refHeader(src, t)
	return h.ok && h.flags == 0 && h.rl == 0
}

type refSub struct {
	topic []byte
	qos   byte
}

type refSubscribe struct {
	ok   bool
	id   int
	subs []refSub
}

func refDecodeSubscribe(src []byte) refSubscribe {
	h := refHeader(src, SUBSCRIBE)
	if !h.ok || h.flags != 2 {
		return refSubscribe{}
	}
	r := &refR{b: src[h.hl : h.hl+h.rl], ok: true}
	s := refSubscribe{id: r.u16()}
	if !r.ok || s.id == 0 {
		return refSubscribe{}
	}
	for r.n < len(r.b) {
		t := r.lp()
		q := r.u8()
		if !r.ok || q > 2 {
			return refSubscribe{}
		}
		s.subs = append(s.subs, refSub{t, q})
	}
	if len(s.subs) == 0 {
		return refSubscribe{}
	}
	s.ok = true
	return s
}

type refUnsubscribe struct {
	ok     bool
	id     int
	topics [][]byte
}

func refDecodeUnsubscribe(src []byte) refUnsubscribe {
	h := refHeader(src, UNSUBSCRIBE)
	if !h.ok || h.flags != 2 {
		return refUnsubscribe{}
	}
	r := &refR{b: src[h.hl : h.hl+h.rl], ok: true}
	u := refUnsubscribe{id: r.u16()}
	if !r.ok || u.id == 0 {
		return refUnsubscribe{}
	}
	for r.n < len(r.b) {
		t := r.lp()
		if !r.ok {
			return refUnsubscribe{}
		}
		u.topics = append(u.topics, t)
	}
	if len(u.topics) == 0 {
		return refUnsubscribe{}
	}
	u.ok = true
	return u
}

type refSuback struct {
	ok    bool
	id    int
	codes []byte
}

func refDecodeSuback(src []byte) refSuback {
	h := refHeader(src, SUBACK)
	if !h.ok || h.flags != 0 {
		return refSuback{}
	}
	r := &refR{b: src[h.hl : h.hl+h.rl], ok: true}
	s := refSuback{id: r.u16()}
	if !r.ok || s.id == 0 {
		return refSuback{}
	}
	s.codes = r.rest()
	if len(s.codes) == 0 {
		return refSuback{}
	}
	for i := 0; i < len(s.codes); i++ {
		c := s.codes[i]
		if c > 2 && c != 0x80 {
			return refSuback{}
		}
	}
	s.ok = true
	return s
}
