//go:build verif

package packet

// C02: decoder total, memory-safe, local, spec-faithful on arbitrary bytes.
// The no-panic part is the engine's implicit obligations (bounds, nil, slice bounds ...).

func c02Common(n int, err error, src []byte) {
	vAssert(n >= 0, "decode reports a non-negative count")
	vAssert(n <= len(src), "decode never reports consuming more bytes than supplied")
	_ = err
}

// VerifC02Detect: DetectPacket is total and agrees with the reference header parser.
func VerifC02Detect() {
	src := vBytes("src", 12)
	n, t := DetectPacket(src)
	if len(src) <= 5 { // the stream decoder never passes more than five header bytes
		vAssert(n >= 0, "DetectPacket length is non-negative on a header of at most five bytes")
	}
	if len(src) >= 2 {
		// reference: varint of up to 4 bytes
		rl, mult, i, ok := 0, 1, 1, true
		for {
			if i >= len(src) || i > 4 {
				ok = false
				break
			}
			d := src[i]
			rl += int(d&127) * mult
			mult *= 128
			i++
			if d&128 == 0 {
				break
			}
		}
		if ok {
			vAssert(n == i+rl, "DetectPacket length = header + remaining length")
			vAssert(t == Type(src[0]>>4), "DetectPacket type = high nibble")
		}
	} else {
		vAssert(n == 0, "DetectPacket needs two bytes")
	}
	vCover("c02-detect-end")
}

func VerifC02Publish() {
	src := vBytes("src", 70000)
	snap := string(src)
	p := NewPublish()
	n, err := p.Decode(src)
	c02Common(n, err, src)
	ref := refDecodePublish(src)
	if err == nil {
		vCover("c02-publish-accept")
		vAssert(ref.ok, "decoder accepts only what the reference decoder accepts (PUBLISH)")
		if ref.ok {
			vAssert(n == ref.total, "consumed = declared extent")
			vAssertEqString(p.Message.Topic, string(ref.topic), "topic equals reference")
			vAssertEqBytes(p.Message.Payload, ref.payload, "payload equals reference")
			vAssert(byte(p.Message.QOS) == ref.qos, "qos equals reference")
			vAssert(p.Message.Retain == ref.retain, "retain equals reference")
			vAssert(p.Dup == ref.dup, "dup equals reference")
			vAssert(int(p.ID) == ref.id, "id equals reference")
			vAssert(vNoAlias(p.Message.Payload, src), "decoded payload does not alias the input buffer")
			// re-encodability of every admitted application message
			buf := make([]byte, p.Len())
			_, eerr := p.Encode(buf)
			vAssert(eerr == nil, "an admitted PUBLISH can be encoded again")
		}
	} else {
		vCover("c02-publish-reject")
		vAssert(!ref.ok, "decoder rejects only what the reference decoder rejects (PUBLISH)")
	}
	_ = snap
	vCover("c02-publish-end")
}

// VerifC02PublishLocal: the result depends only on the packet's declared extent.
func VerifC02PublishLocal() {
	src := vBytes("src", 70000)
	h := refHeader(src, PUBLISH)
	vAssume(h.ok)
	e := h.hl + h.rl
	p1, p2 := NewPublish(), NewPublish()
	n1, err1 := p1.Decode(src)
	n2, err2 := p2.Decode(src[:e])
	vAssert((err1 == nil) == (err2 == nil), "accept/reject does not depend on bytes after the extent (PUBLISH)")
	if err1 == nil && err2 == nil {
		vAssert(n1 == n2, "same count framed and embedded")
		vAssert(n1 <= e, "count within the extent")
		vAssertEqString(p1.Message.Topic, p2.Message.Topic, "topic independent of trailing bytes")
		vAssertEqBytes(p1.Message.Payload, p2.Message.Payload, "payload independent of trailing bytes")
		vAssert(p1.ID == p2.ID, "id independent of trailing bytes")
	}
	vCover("c02-publish-local-end")
}

func VerifC02Connect() {
	src := vBytes("src", 70000)
	if vParam("VL", 1) == 1 && len(src) >= 2 {
		vAssume(src[1] < 128) // one-byte remaining length (packets up to 129 bytes); VL=2 lifts this
	}
	// framed exactly to its declared extent (as the stream decoder passes it): reading beyond
	// the extent is the subject of VerifC02ConnectOverread (known finding), not of this harness
	if h := refHeader(src, CONNECT); h.ok {
		vAssume(len(src) == h.hl+h.rl)
	}
	c := NewConnect()
	n, err := c.Decode(src)
	c02Common(n, err, src)
	ref := refDecodeConnect(src, false)
	if err == nil {
		vCover("c02-connect-accept")
		if !ref.ok {
			// known finding: fields read from beyond the declared extent. Anything the
			// over-reading reference also rejects is a different violation.
			lref := refDecodeConnect(src, true)
			if lref.ok {
				vKnownFinding("C02-connect-overread")
				ref = lref
			} else {
				vAssert(false, "decoder accepts only what the reference decoder accepts (CONNECT)")
			}
		}
		if ref.ok {
			vAssert(n == ref.consumed, "consumed = end of last field")
			vAssert(c.Version == ref.version, "version equals reference")
			vAssert(c.CleanSession == ref.clean, "clean session equals reference")
			vAssert(int(c.KeepAlive) == ref.keepAlive, "keep alive equals reference")
			vAssertEqString(c.ClientID, string(ref.cid), "client id equals reference")
			vAssert((c.Will != nil) == ref.hasWill, "will presence equals reference")
			if c.Will != nil && ref.hasWill {
				vAssertEqString(c.Will.Topic, string(ref.willTopic), "will topic equals reference")
				vAssertEqBytes(c.Will.Payload, ref.willPayload, "will payload equals reference")
				vAssert(byte(c.Will.QOS) == ref.willQOS, "will qos equals reference")
				vAssert(c.Will.Retain == ref.willRetain, "will retain equals reference")
				vAssert(vNoAlias(c.Will.Payload, src), "decoded will payload does not alias the input buffer")
				// the will must be publishable later
				pub := &Publish{Message: *c.Will}
				if pub.Message.QOS > 0 {
					pub.ID = 1
				}
				buf := make([]byte, pub.Len())
				_, eerr := pub.Encode(buf)
				vAssert(eerr == nil, "an admitted will can be encoded for forwarding")
			}
			vAssertEqString(c.Username, string(ref.user), "username equals reference")
			vAssertEqString(c.Password, string(ref.pass), "password equals reference")
		}
	} else {
		vCover("c02-connect-reject")
		vAssert(!ref.ok, "decoder rejects only what the reference decoder rejects (CONNECT)")
	}
	vCover("c02-connect-end")
}

func VerifC02ConnectLocal() {
	src := vBytes("src", 70000)
	h := refHeader(src, CONNECT)
	vAssume(h.ok)
	e := h.hl + h.rl
	c1, c2 := NewConnect(), NewConnect()
	n1, err1 := c1.Decode(src)
	_, err2 := c2.Decode(src[:e])
	if (err1 == nil) != (err2 == nil) || (err1 == nil && n1 > e) {
		if refDecodeConnect(src, true).ok && !refDecodeConnect(src, false).ok {
			vKnownFinding("C02-connect-overread")
		} else {
			vAssert(false, "accept/reject and count do not depend on bytes after the extent (CONNECT)")
		}
	}
	vCover("c02-connect-local-end")
}

func VerifC02Connack() {
	src := vBytes("src", 10)
	c := NewConnack()
	n, err := c.Decode(src)
	c02Common(n, err, src)
	ref := refDecodeConnack(src)
	if err == nil {
		vCover("c02-connack-accept")
		vAssert(ref.ok, "decoder accepts only what the reference decoder accepts (CONNACK)")
		if ref.ok {
			vAssert(c.SessionPresent == ref.sp, "session present equals reference")
			vAssert(byte(c.ReturnCode) == ref.rc, "return code equals reference")
		}
	} else {
		vAssert(!ref.ok, "decoder rejects only what the reference decoder rejects (CONNACK)")
	}
	// locality
	h := refHeader(src, CONNACK)
	if h.ok {
		c2 := NewConnack()
		_, err2 := c2.Decode(src[:h.hl+h.rl])
		vAssert((err == nil) == (err2 == nil), "accept/reject does not depend on bytes after the extent (CONNACK)")
	}
	vCover("c02-connack-end")
}

func VerifC02Identified() {
	src := vBytes("src", 10)
	var p Generic
	var t Type
	switch vChoice("type", 5) {
	case 0:
		p, t = NewPuback(), PUBACK
	case 1:
		p, t = NewPubrec(), PUBREC
	case 2:
		p, t = NewPubrel(), PUBREL
	case 3:
		p, t = NewPubcomp(), PUBCOMP
	case 4:
		p, t = NewUnsuback(), UNSUBACK
	}
	n, err := p.Decode(src)
	c02Common(n, err, src)
	ref := refDecodeIdentified(src, t)
	if err == nil {
		vCover("c02-identified-accept")
		vAssert(ref.ok, "decoder accepts only what the reference decoder accepts (identified)")
		id, _ := GetID(p)
		vAssert(int(id) == ref.id, "id equals reference")
		h := refHeader(src, t)
		vAssert(n == h.hl+2, "consumed header plus two bytes")
	} else {
		vAssert(!ref.ok, "decoder rejects only what the reference decoder rejects (identified)")
	}
	vCover("c02-identified-end")
}

func VerifC02Naked() {
	src := vBytes("src", 8)
	var p Generic
	var t Type
	switch vChoice("type", 3) {
	case 0:
		p, t = NewPingreq(), PINGREQ
	case 1:
		p, t = NewPingresp(), PINGRESP
	case 2:
		p, t = NewDisconnect(), DISCONNECT
	}
	n, err := p.Decode(src)
	c02Common(n, err, src)
	ok := refDecodeNaked(src, t)
	vAssert((err == nil) == ok, "accept/reject equals reference (naked)")
	vCover("c02-naked-end")
}

func VerifC02Subscribe() {
	src := vBytes("src", 14)
	s := NewSubscribe()
	n, err := s.Decode(src)
	c02Common(n, err, src)
	ref := refDecodeSubscribe(src)
	if err == nil {
		vCover("c02-subscribe-accept")
		vAssert(ref.ok, "decoder accepts only what the reference decoder accepts (SUBSCRIBE)")
		if ref.ok {
			vAssert(int(s.ID) == ref.id, "id equals reference")
			vAssert(len(s.Subscriptions) == len(ref.subs), "number of subscriptions equals reference")
			if len(s.Subscriptions) == len(ref.subs) {
				for i := range ref.subs {
					vAssertEqString(s.Subscriptions[i].Topic, string(ref.subs[i].topic), "filter equals reference")
					vAssert(byte(s.Subscriptions[i].QOS) == ref.subs[i].qos, "requested qos equals reference")
				}
			}
		}
	} else {
		vAssert(!ref.ok, "decoder rejects only what the reference decoder rejects (SUBSCRIBE)")
	}
	h := refHeader(src, SUBSCRIBE)
	if h.ok {
		s2 := NewSubscribe()
		_, err2 := s2.Decode(src[:h.hl+h.rl])
		vAssert((err == nil) == (err2 == nil), "accept/reject does not depend on bytes after the extent (SUBSCRIBE)")
	}
	vCover("c02-subscribe-end")
}

func VerifC02Unsubscribe() {
	src := vBytes("src", 14)
	u := NewUnsubscribe()
	n, err := u.Decode(src)
	c02Common(n, err, src)
	ref := refDecodeUnsubscribe(src)
	if err == nil {
		vCover("c02-unsubscribe-accept")
		vAssert(ref.ok, "decoder accepts only what the reference decoder accepts (UNSUBSCRIBE)")
		if ref.ok {
			vAssert(int(u.ID) == ref.id, "id equals reference")
			vAssert(len(u.Topics) == len(ref.topics), "number of topics equals reference")
			if len(u.Topics) == len(ref.topics) {
				for i := range ref.topics {
					vAssertEqString(u.Topics[i], string(ref.topics[i]), "filter equals reference")
				}
			}
		}
	} else {
		vAssert(!ref.ok, "decoder rejects only what the reference decoder rejects (UNSUBSCRIBE)")
	}
	h := refHeader(src, UNSUBSCRIBE)
	if h.ok {
		u2 := NewUnsubscribe()
		_, err2 := u2.Decode(src[:h.hl+h.rl])
		vAssert((err == nil) == (err2 == nil), "accept/reject does not depend on bytes after the extent (UNSUBSCRIBE)")
	}
	vCover("c02-unsubscribe-end")
}

func VerifC02Suback() {
	src := vBytes("src", 7) // header 2, id 2, up to 3 return codes (each code multiplies the paths by 5)
	s := NewSuback()
	n, err := s.Decode(src)
	c02Common(n, err, src)
	ref := refDecodeSuback(src)
	if err == nil {
		vCover("c02-suback-accept")
		vAssert(ref.ok, "decoder accepts only what the reference decoder accepts (SUBACK)")
		if ref.ok {
			vAssert(int(s.ID) == ref.id, "id equals reference")
			vAssert(len(s.ReturnCodes) == len(ref.codes), "number of return codes equals reference")
			if len(s.ReturnCodes) == len(ref.codes) {
				for i := 0; i < len(ref.codes); i++ {
					vAssert(byte(s.ReturnCodes[i]) == ref.codes[i], "return code equals reference")
				}
			}
		}
	} else {
		vAssert(!ref.ok, "decoder rejects only what the reference decoder rejects (SUBACK)")
	}
	vCover("c02-suback-end")
}

// VerifC02ConnectOverread: the known finding C02-connect-overread in its smallest form: a CONNECT
// whose remaining length is too short for its fields, followed in the buffer by the bytes of those fields.
func VerifC02ConnectOverread() {
	body := []byte{0, 4, 'M', 'Q', 'T', 'T', 4, 2, 0, 0, 0, 1, 'c'}
	rl := vInt("rl", 0, len(body))
	src := append([]byte{0x10, byte(rl)}, body...)
	c := NewConnect()
	_, err := c.Decode(src)
	strict := refDecodeConnect(src, false)
	if rl == len(body) {
		vAssert(err == nil && strict.ok, "the correctly framed packet is accepted")
	} else if err == nil {
		vAssert(!strict.ok, "reference rejects a CONNECT whose fields do not fit its remaining length")
		if refDecodeConnect(src, true).ok {
			vKnownFinding("C02-connect-overread")
		} else {
			vAssert(false, "decoder accepts only what the reference decoder accepts (CONNECT)")
		}
	}
	vCover("c02-connect-overread-end")
}
