//go:build verif

package broker

import (
	"errors"
	"net"
	"sync"
	"time"

	"github.com/256dpi/gomqtt/packet"
)

var errVConnClosed = errors.New("vconn: closed")
var errVConnFault = errors.New("vconn: injected fault")

// vConn is the nondeterministic transport.Conn stub: the harness thread plays the peer.
type vConn struct {
	mu      sync.Mutex
	in      chan packet.Generic
	sent    []packet.Generic
	closed  bool
	closeCh chan struct{}
	closes  int
	dead    bool // a send failed: the connection is gone
	faults  bool // may sends fail?
	timeout time.Duration
	limit   int64
	encode  bool // run the real Len/Encode on every sent packet
	encodeErrors int
	onSend  func(pkt packet.Generic) // monitor, called with the lock held after a successful send
}

func newVConn(faults bool) *vConn {
	return &vConn{in: make(chan packet.Generic, 8), closeCh: make(chan struct{}), faults: faults}
}

func (c *vConn) Send(pkt packet.Generic, async bool) error {
	c.mu.Lock()
	defer c.mu.Unlock()
	if c.closed || c.dead {
		return errVConnClosed
	}
	if c.faults && vFail("send") {
		// like BaseConn: a failed write closes the carrier, a pending Receive fails
		c.dead = true
		c.closed = true
		close(c.closeCh)
		return errVConnFault
	}
	if c.encode {
		// like BaseConn/Encoder: a packet that cannot be encoded fails the send and
		// closes the carrier
		buf := make([]byte, pkt.Len())
		if _, err := pkt.Encode(buf); err != nil {
			c.encodeErrors++
			if !c.closed {
				c.closed = true
				close(c.closeCh)
			}
			return err
		}
	}
	c.sent = append(c.sent, pkt)
	if c.onSend != nil {
		c.onSend(pkt)
	}
	return nil
}

func (c *vConn) Receive() (packet.Generic, error) {
	select {
	case p, ok := <-c.in:
		if !ok {
			return nil, errVConnClosed
		}
		return p, nil
	case <-c.closeCh:
		return nil, errVConnClosed
	}
}

func (c *vConn) Close() error {
	c.mu.Lock()
	defer c.mu.Unlock()
	c.closes++
	if !c.closed {
		c.closed = true
		close(c.closeCh)
	}
	return nil
}

func (c *vConn) isClosed() bool {
	c.mu.Lock()
	defer c.mu.Unlock()
	return c.closed
}

func (c *vConn) sentCount() int {
	c.mu.Lock()
	defer c.mu.Unlock()
	return len(c.sent)
}

func (c *vConn) sentAt(i int) packet.Generic {
	c.mu.Lock()
	defer c.mu.Unlock()
	return c.sent[i]
}

func (c *vConn) SetReadLimit(limit int64)              { c.limit = limit }
func (c *vConn) SetReadTimeout(timeout time.Duration)  { c.timeout = timeout }
func (c *vConn) SetMaxWriteDelay(delay time.Duration)  {}
func (c *vConn) LocalAddr() net.Addr                   { return nil }
func (c *vConn) RemoteAddr() net.Addr                  { return nil }

func chanClosed(ch <-chan struct{}) bool {
	select {
	case <-ch:
		return true
	default:
		return false
	}
}
