//go:build verif

package broker

import (
	"github.com/256dpi/gomqtt/packet"
	"github.com/256dpi/gomqtt/topic"
)

// VerifC11Retained: retained set = last non-empty retained publish per topic; replayed on
// every (new or repeated) subscription, flagged retained, QoS capped; live copies unflagged.
func VerifC11Retained() {
	L := vParam("L", 2)
	H := vParam("H", 2)
	m := NewMemoryBackend()
	pub, _ := mkClient(m, "p", true)
	live, ls := mkClient(m, "l", true)
	vAssert(m.Subscribe(live, []packet.Subscription{{Topic: "#", QOS: 2}}, nil) == nil, "live subscriber")

	// reference model: topic -> (payload, qos)
	var rt []string
	var rp [][]byte
	var rq []packet.QOS
	for i := 0; i < H; i++ {
		msg := symMessage(L)
		tp, pl, q, r := msg.Topic, msg.Payload, msg.QOS, msg.Retain
		vAssert(m.Publish(pub, msg, nil) == nil, "Publish succeeds")
		// live copy: delivered now, retain flag cleared
		vAssert(queued(ls) == 1, "live subscriber receives every publish")
		got, _, _ := m.Dequeue(live)
		if got != nil {
			vAssert(!got.Retain, "live copy of a (retained) publish has the flag cleared")
			vAssertEqString(got.Topic, tp, "live copy topic")
		}
		if r {
			idx := -1
			for j := range rt {
				if rt[j] == tp {
					idx = j
				}
			}
			if len(pl) > 0 {
				if idx < 0 {
					rt, rp, rq = append(rt, tp), append(rp, pl), append(rq, q)
				} else {
					rp[idx], rq[idx] = pl, q
				}
			} else if idx >= 0 {
				rt = append(rt[:idx:idx], rt[idx+1:]...)
				rp = append(rp[:idx:idx], rp[idx+1:]...)
				rq = append(rq[:idx:idx], rq[idx+1:]...)
			}
		}
	}

	sub, ss := mkClient(m, "s", true)
	f := symFilter("filter", L)
	sq := symQOS("subqos")
	rounds := 1
	if vParam("REP", 1) == 1 {
		rounds = 1 + vChoice("repeat", 2) // a repeated subscription replays again
	}
	for round := 0; round < rounds; round++ {
		if round == 1 {
			sq = symQOS("subqos2") // the repeated subscription may ask for another QoS
		}
		vAssert(m.Subscribe(sub, []packet.Subscription{{Topic: f, QOS: sq}}, nil) == nil, "Subscribe")
		want := 0
		for j := range rt {
			if topic.VerifRefMatch(f, rt[j]) {
				want++
			}
		}
		vAssert(queued(ss) == want, "exactly the retained messages whose topic matches are replayed")
		seen := make([]bool, len(rt))
		for k := 0; k < want; k++ {
			got, _, _ := m.Dequeue(sub)
			if got == nil {
				break
			}
			vAssert(got.Retain, "replayed message is flagged retained")
			hit := -1
			for j := range rt {
				if got.Topic == rt[j] {
					hit = j
				}
			}
			vAssert(hit >= 0, "replayed message is in the retained set")
			if hit >= 0 {
				vAssert(!seen[hit], "each retained message once")
				seen[hit] = true
				vAssert(topic.VerifRefMatch(f, rt[hit]), "replayed topic matches the filter")
				vAssertEqBytes(got.Payload, rp[hit], "replayed payload is the last retained payload")
				vAssert(got.QOS == minQ(rq[hit], sq), "replayed QoS capped like a live delivery")
			}
		}
	}
	vCover("c11-retained-end")
}

// VerifC11Clear: two retained publishes, then a retained publish with an empty payload
// (the clearing path), then a subscription - names long enough for a topic and its child.
func VerifC11Clear() {
	L := vParam("L", 3)
	m := NewMemoryBackend()
	pub, _ := mkClient(m, "p", true)
	var rt []string
	for i := 0; i < 2; i++ {
		tp := symName("topic", L)
		vAssert(m.Publish(pub, &packet.Message{Topic: tp, Payload: []byte{byte(i + 1)}, Retain: true}, nil) == nil, "retained publish")
		found := false
		for _, x := range rt {
			if x == tp {
				found = true
			}
		}
		if !found {
			rt = append(rt, tp)
		}
	}
	victim := symName("victim", L)
	vAssert(m.Publish(pub, &packet.Message{Topic: victim, Payload: nil, Retain: true}, nil) == nil, "clearing publish")
	var left []string
	for _, x := range rt {
		if x != victim {
			left = append(left, x)
		}
	}
	sub, ss := mkClient(m, "s", true)
	f := symFilter("filter", L)
	vAssert(m.Subscribe(sub, []packet.Subscription{{Topic: f, QOS: 0}}, nil) == nil, "Subscribe")
	want := 0
	for _, x := range left {
		if topic.VerifRefMatch(f, x) {
			want++
		}
	}
	vAssert(queued(ss) == want, "exactly the retained messages that were not cleared and match are replayed")
	vCover("c11-clear-end")
}

// VerifC11Will: a will message carrying the retain flag counts as a publish: when the real
// client ends without DISCONNECT its will (non-empty payload) becomes the retained message
// of its topic - replacing an older one - and a will with an empty payload clears it; a will
// without the flag leaves the retained set alone. A later subscription sees exactly that.
func VerifC11Will() {
	m := NewMemoryBackend()
	pub, _ := mkClient(m, "p", true)
	older := vBool("older")
	if older {
		vAssert(m.Publish(pub, &packet.Message{Topic: "w", Payload: []byte{7}, Retain: true}, nil) == nil, "retained publish")
	}
	retain := vBool("willretain")
	payload := vBytes("willpayload", 2)
	wq := symQOS("willqos")
	conn := newVConn(false)
	c := NewClient(m, conn)
	conn.in <- mkConnect("c", true, &packet.Message{Topic: "w", Payload: payload, QOS: wq, Retain: retain})
	vQuiesce()
	vAssert(conn.sentCount() == 1 && !conn.isClosed(), "accepted")
	if vBool("disconnect") {
		conn.in <- packet.NewDisconnect()
		retain = false // no will at all
		vQuiesce()
	} else {
		close(conn.in)
		vQuiesce()
	}
	vAssert(chanClosed(c.Closed()), "client gone")
	sub, ss := mkClient(m, "s", true)
	vAssert(m.Subscribe(sub, []packet.Subscription{{Topic: "w", QOS: 2}}, nil) == nil, "Subscribe")
	switch {
	case retain && len(payload) > 0:
		vCover("c11-will-retained")
		vAssert(queued(ss) == 1, "a retained will is replayed to a later subscriber")
		got, _, _ := m.Dequeue(sub)
		vAssert(got != nil && got.Retain, "flagged retained")
		if got != nil {
			vAssertEqBytes(got.Payload, payload, "with the will's payload (it replaced any older retained message)")
			vAssert(got.QOS == wq, "and the will's QoS")
		}
	case retain:
		vCover("c11-will-clears")
		vAssert(queued(ss) == 0, "a retained will with an empty payload clears the retained message")
	case older:
		vAssert(queued(ss) == 1, "a will without the flag (or no will) leaves the retained message alone")
		got, _, _ := m.Dequeue(sub)
		vAssert(got != nil && len(got.Payload) == 1 && got.Payload[0] == 7, "the older retained message is still there")
	default:
		vAssert(queued(ss) == 0, "nothing retained")
	}
	vCover("c11-will-end")
}
