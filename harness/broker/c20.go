//go:build verif

package broker

import "github.com/256dpi/gomqtt/packet"

func anyNonConnect() packet.Generic {
	switch vChoice("first", 13) {
	case 0:
		return packet.NewConnack()
	case 1:
		p := packet.NewPublish()
		p.Message.Topic = "t"
		p.Message.QOS = packet.QOS(vChoice("qos", 3))
		p.ID = 1
		return p
	case 2:
		return &packet.Puback{ID: packet.ID(vU16("id"))}
	case 3:
		return &packet.Pubrec{ID: packet.ID(vU16("id"))}
	case 4:
		return &packet.Pubrel{ID: packet.ID(vU16("id"))}
	case 5:
		return &packet.Pubcomp{ID: packet.ID(vU16("id"))}
	case 6:
		s := packet.NewSubscribe()
		s.ID = 1
		s.Subscriptions = []packet.Subscription{{Topic: "#", QOS: 0}}
		return s
	case 7:
		return &packet.Suback{ID: 1, ReturnCodes: []packet.QOS{0}}
	case 8:
		u := packet.NewUnsubscribe()
		u.ID = 1
		u.Topics = []string{"#"}
		return u
	case 9:
		return &packet.Unsuback{ID: 1}
	case 10:
		return packet.NewPingreq()
	case 11:
		return packet.NewPingresp()
	}
	return packet.NewDisconnect()
}

// VerifC20First: anything but CONNECT as the first packet closes the connection without a reply.
func VerifC20First() {
	conn := newVConn(false)
	be := NewMemoryBackend()
	c := NewClient(be, conn)
	conn.in <- anyNonConnect()
	vQuiesce()
	vAssert(conn.isClosed(), "connection closed after a non-CONNECT first packet")
	vAssert(conn.sentCount() == 0, "nothing is sent before an accepted CONNECT")
	vAssert(chanClosed(c.Closed()), "closed signal fires")
	vAssert(vLive() == 0, "no goroutine of the client is left")
	vAssert(len(be.activeClients) == 0 && len(be.temporarySessions) == 0 && len(be.storedSessions) == 0, "no session was set up")
	vCover("c20-first-end")
}

// VerifC20Auth: rejected credentials yield exactly one not-authorised CONNACK and nothing more.
func VerifC20Auth() {
	be := newRecBackend()
	be.Credentials = map[string]string{"u": "p"}
	user := vString("user", 2)
	pass := vString("pass", 2)
	con := mkConnect("c", vBool("clean"), &packet.Message{Topic: "will", Payload: []byte{1}, QOS: 0})
	con.Username, con.Password = user, pass
	c, conn := startClient(be, con, false)
	good := user == "u" && pass == "p"
	vAssert(conn.sentCount() >= 1, "a CONNACK is sent in either case")
	if conn.sentCount() >= 1 {
		ack, ok := conn.sentAt(0).(*packet.Connack)
		vAssert(ok, "first packet sent is the CONNACK")
		if ok {
			if good {
				vCover("c20-auth-accepted")
				vAssert(ack.ReturnCode == packet.ConnectionAccepted, "valid credentials are accepted")
				vAssert(!conn.isClosed(), "accepted connection stays open")
			} else {
				vCover("c20-auth-rejected")
				vAssert(ack.ReturnCode == packet.NotAuthorized, "invalid credentials yield not-authorised")
				vAssert(conn.sentCount() == 1, "nothing but the CONNACK is sent")
				vAssert(conn.isClosed(), "connection closed after rejection")
				vAssert(be.setups == 0 && be.subscribes == 0 && be.dequeues == 0 && len(be.terminates) == 0, "no session, no subscription, no delivery, no terminate")
				vAssert(len(be.publishes) == 0, "no will is published for a rejected client")
				vAssert(chanClosed(c.Closed()), "closed signal fires")
				vAssert(vLive() == 0, "no goroutine left")
			}
		}
	}
	vAssert(countType(conn, packet.CONNACK) == 1, "exactly one CONNACK")
	vCover("c20-auth-end")
}

// VerifC20Second: a second CONNECT or a server-only packet after acceptance closes the connection.
func VerifC20Second() {
	be := newRecBackend()
	c, conn := startClient(be, mkConnect("c", true, nil), false)
	vAssert(!conn.isClosed() && conn.sentCount() == 1, "accepted")
	var bad packet.Generic
	switch vChoice("bad", 5) {
	case 0:
		bad = mkConnect("c", true, nil)
	case 1:
		bad = packet.NewConnack()
	case 2:
		bad = &packet.Suback{ID: 1, ReturnCodes: []packet.QOS{0}}
	case 3:
		bad = &packet.Unsuback{ID: 1}
	case 4:
		bad = packet.NewPingresp()
	}
	conn.in <- bad
	vQuiesce()
	vAssert(conn.isClosed(), "out-of-protocol packet closes the connection")
	vAssert(countType(conn, packet.CONNACK) == 1, "never more than one CONNACK")
	vAssert(chanClosed(c.Closed()), "closed signal fires")
	vAssert(be.terminatesOf(c) == 1, "backend told about the termination exactly once")
	vAssert(vLive() == 0, "no goroutine left")
	vCover("c20-second-end")
}

// VerifC20ReqResp: pipelined requests each get their response (same id, codes in request order).
func VerifC20ReqResp() {
	be := newRecBackend()
	_, conn := startClient(be, mkConnect("c", true, nil), false)
	K := vParam("K", 3)
	type req struct {
		kind int
		id   packet.ID
		qos  []packet.QOS
	}
	var reqs []req
	for i := 0; i < 2; i++ {
		kind := vChoice("kind", 3)
		id := packet.ID(vU16("id"))
		vAssume(id != 0)
		r := req{kind: kind, id: id}
		switch kind {
		case 0:
			s := packet.NewSubscribe()
			s.ID = id
			k := vLen("filters", 1, K)
			for j := 0; j < k; j++ {
				q := symQOS("q")
				r.qos = append(r.qos, q)
				s.Subscriptions = append(s.Subscriptions, packet.Subscription{Topic: string([]byte{'t', byte('0' + j)}), QOS: q})
			}
			conn.in <- s
		case 1:
			u := packet.NewUnsubscribe()
			u.ID = id
			u.Topics = []string{"t0"}
			conn.in <- u
		case 2:
			conn.in <- packet.NewPingreq()
		}
		reqs = append(reqs, r)
	}
	vQuiesce()
	vAssert(!conn.isClosed(), "valid requests keep the connection open")
	vAssert(conn.sentCount() == 1+len(reqs), "one response per request, none duplicated")
	// responses: match per kind in order
	used := make([]bool, conn.sentCount())
	for _, r := range reqs {
		found := false
		for i := 1; i < conn.sentCount() && !found; i++ {
			if used[i] {
				continue
			}
			switch p := conn.sentAt(i).(type) {
			case *packet.Suback:
				if r.kind == 0 && p.ID == r.id && len(p.ReturnCodes) == len(r.qos) {
					same := true
					for j := range r.qos {
						if p.ReturnCodes[j] != r.qos[j] {
							same = false
						}
					}
					if same {
						used[i], found = true, true
					}
				}
			case *packet.Unsuback:
				if r.kind == 1 && p.ID == r.id {
					used[i], found = true, true
				}
			case *packet.Pingresp:
				if r.kind == 2 {
					used[i], found = true, true
				}
			}
		}
		vAssert(found, "every request has its own response with the same id and the requested codes in order")
	}
	vCover("c20-reqresp-end")
}

// VerifC20Tokens: the per-connection limits on parallel publishes and subscribes are returned
// by every completed request, so a connection that waits for each response before sending
// the next request is answered for ever: with the limits set to T, T+2 sequential requests of
// any kind (SUBSCRIBE, UNSUBSCRIBE, QoS 1 PUBLISH, QoS 2 PUBLISH + PUBREL) are all answered
// and the connection stays open (a leaked slot would end in the token timeout).
func VerifC20Tokens() {
	be := newRecBackend()
	T := vParam("T", 1)
	be.ClientParallelPublishes = T
	be.ClientParallelSubscribes = T
	_, conn := startClient(be, mkConnect("c", true, nil), false)
	R := T + 2
	want := 1
	for i := 0; i < R; i++ {
		id := packet.ID(10 + i)
		switch vChoice("kind", 4) {
		case 0:
			s := packet.NewSubscribe()
			s.ID = id
			s.Subscriptions = []packet.Subscription{{Topic: "t", QOS: 0}}
			conn.in <- s
			vQuiesce()
			want++
			sa, ok := conn.sentAt(conn.sentCount() - 1).(*packet.Suback)
			vAssert(conn.sentCount() == want && ok && sa.ID == id, "SUBSCRIBE answered by its SUBACK")
		case 1:
			u := packet.NewUnsubscribe()
			u.ID = id
			u.Topics = []string{"t"}
			conn.in <- u
			vQuiesce()
			want++
			ua, ok := conn.sentAt(conn.sentCount() - 1).(*packet.Unsuback)
			vAssert(conn.sentCount() == want && ok && ua.ID == id, "UNSUBSCRIBE answered by its UNSUBACK")
		case 2:
			p := packet.NewPublish()
			p.Message = packet.Message{Topic: "x", QOS: 1}
			p.ID = id
			conn.in <- p
			vQuiesce()
			want++
			pa, ok := conn.sentAt(conn.sentCount() - 1).(*packet.Puback)
			vAssert(conn.sentCount() == want && ok && pa.ID == id, "QoS 1 PUBLISH answered by its PUBACK")
		case 3:
			p := packet.NewPublish()
			p.Message = packet.Message{Topic: "x", QOS: 2}
			p.ID = id
			conn.in <- p
			vQuiesce()
			want++
			pr, ok := conn.sentAt(conn.sentCount() - 1).(*packet.Pubrec)
			vAssert(conn.sentCount() == want && ok && pr.ID == id, "QoS 2 PUBLISH answered by its PUBREC")
			rel := packet.NewPubrel()
			rel.ID = id
			conn.in <- rel
			vQuiesce()
			want++
			pc, ok2 := conn.sentAt(conn.sentCount() - 1).(*packet.Pubcomp)
			vAssert(conn.sentCount() == want && ok2 && pc.ID == id, "PUBREL answered by its PUBCOMP")
		}
		vAssert(!conn.isClosed(), "the connection stays open")
	}
	vCover("c20-tokens-end")
}
