//go:build verif

package broker

import "github.com/256dpi/gomqtt/packet"

func anyNonConnect() packet.Generic {
	switch vChoice("first", 13) {
	case 0:
		return packet.NewConnack()
	case 1:
		p := packet.NewPublish()
		p.Message.Topic = "t"
		p.Message.QOS = packet.QOS(vChoice("qos", 3))
		p.ID = 1
		return p
	case 2:
		return &packet.Puback{ID: packet.ID(vU16("id"))}
	case 3:
		return &packet.Pubrec{ID: packet.ID(vU16("id"))}
	case 4:
		return &packet.Pubrel{ID: packet.ID(vU16("id"))}
	case 5:
		return &packet.Pubcomp{ID: packet.ID(vU16("id"))}
	case 6:
		s := packet.NewSubscribe()
		s.ID = 1
		s.Subscriptions = []packet.Subscription{{Topic: "#", QOS: 0}}
		return s
	case 7:
		return &packet.Suback{ID: 1, ReturnCodes: []packet.QOS{0}}
	case 8:
		u := packet.NewUnsubscribe()
		u.ID = 1
		u.Topics = []string{"#"}
		return u
	case 9:
		return &packet.Unsuback{ID: 1}
	case 10:
		return packet.NewPingreq()
	case 11:
		return packet.NewPingresp()
	}
	return packet.NewDisconnect()
}

// VerifC20First: anything but CONNECT as the first packet closes the connection without a reply.
func VerifC20First() {
	conn := newVConn(false)
	be := NewMemoryBackend()
	c := NewClient(be, conn)
	conn.in <- anyNonConnect()
	vQuiesce()
	vAssert(conn.isClosed(), "connection closed after a non-CONNECT first packet")
	vAssert(conn.sentCount() == 0, "nothing is sent before an accepted CONNECT")
	vAssert(chanClosed(c.Closed()), "closed signal fires")
	vAssert(vLive() == 0, "no goroutine of the client is left")
	vAssert(len(be.activeClients) == 0 && len(be.temporarySessions) == 0 && len(be.storedSessions) == 0, "no session was set up")
	vCover("c20-first-end")
}
