//go:build verif

package broker

import (
	"time"

	"github.com/256dpi/gomqtt/packet"
)

// VerifC12Will: the will is published exactly once iff the client was accepted and the
// connection ends without DISCONNECT; every connection releases its resources (C14).
func VerifC12Will() {
	be := newRecBackend()
	hasWill := vBool("haswill")
	var will *packet.Message
	var wp []byte
	var wq packet.QOS
	var wr bool
	if hasWill {
		wp, wq, wr = vBytes("willpayload", 3), symQOS("willqos"), vBool("willretain")
		will = &packet.Message{Topic: "will", Payload: wp, QOS: wq, Retain: wr}
	}
	be.failSetup = vBool("setupfails")
	accepted := !be.failSetup
	c, conn := startClient(be, mkConnect("c", vBool("clean"), will), false)
	if accepted {
		vAssert(conn.sentCount() == 1 && !conn.isClosed(), "accepted: CONNACK written, connection open")
		// protocol state in which the end strikes
		switch vChoice("state", 4) {
		case 0: // idle
		case 1: // QoS 1 publish in flight
			p := packet.NewPublish()
			p.Message = packet.Message{Topic: "x", QOS: 1}
			p.ID = 7
			conn.in <- p
			vQuiesce()
		case 2: // QoS 2 handshake open (PUBREC sent, PUBREL outstanding)
			p := packet.NewPublish()
			p.Message = packet.Message{Topic: "x", QOS: 2}
			p.ID = 7
			conn.in <- p
			vQuiesce()
		case 3: // subscribed, a QoS 1 message in flight towards the client
			s := packet.NewSubscribe()
			s.ID = 3
			s.Subscriptions = []packet.Subscription{{Topic: "x", QOS: 1}}
			conn.in <- s
			vQuiesce()
			p := packet.NewPublish()
			p.Message = packet.Message{Topic: "x", QOS: 1}
			p.ID = 8
			conn.in <- p
			vQuiesce()
		}
	} else {
		vAssert(conn.isClosed(), "refused connection is closed")
	}
	disconnect := false
	if accepted {
		switch vChoice("cause", 6) {
		case 0:
			disconnect = true
			conn.in <- packet.NewDisconnect()
		case 1: // network error / EOF
			close(conn.in)
		case 2: // out-of-protocol packet
			conn.in <- mkConnect("c", true, nil)
		case 3: // displaced / closed by the broker
			c.Close()
		case 4: // backend shutdown
			be.Close(time.Second)
		case 5: // malformed packet: the transport reports a decode error and closes
			conn.Close()
		}
	}
	vQuiesce()
	want := 0
	if accepted && hasWill && !disconnect {
		want = 1
	}
	vAssert(be.publishesOf(c, "will") == want, "will published exactly once iff accepted and no DISCONNECT")
	if want == 1 {
		for i, m := range be.publishes {
			if m.Topic == "will" {
				vAssertEqBytes(m.Payload, wp, "will payload as supplied at connect")
				vAssert(m.QOS == wq, "will QoS as supplied at connect")
				vAssert(be.pubRetain[i] == wr, "will retain flag as supplied at connect")
			}
		}
	}
	// C14 release: closed signal, terminate exactly once per successful setup, no goroutine left
	vAssert(conn.isClosed(), "connection closed at the end")
	vAssert(chanClosed(c.Closed()), "closed signal fires")
	if accepted {
		vAssert(be.terminatesOf(c) == 1, "Terminate exactly once for a connection that was set up")
	} else {
		vAssert(be.terminatesOf(c) <= 1, "Terminate at most once when Setup failed")
	}
	vAssert(vLive() == 0, "no goroutine of the connection is left")
	vCover("c12-will-end")
}
