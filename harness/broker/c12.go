//go:build verif

package broker

import (
	"net"
	"time"

	"github.com/256dpi/gomqtt/packet"
	"github.com/256dpi/gomqtt/transport"
)

// VerifC12Will: the will is published exactly once iff the client was accepted and the
// connection ends without DISCONNECT; every connection releases its resources (C14).
func VerifC12Will() {
	be := newRecBackend()
	hasWill := vBool("haswill")
	var will *packet.Message
	var wp []byte
	var wq packet.QOS
	var wr bool
	if hasWill {
		wp, wq, wr = vBytes("willpayload", 3), symQOS("willqos"), vBool("willretain")
		will = &packet.Message{Topic: "will", Payload: wp, QOS: wq, Retain: wr}
	}
	be.failSetup = vBool("setupfails")
	accepted := !be.failSetup
	c, conn := startClient(be, mkConnect("c", vBool("clean"), will), false)
	if accepted {
		vAssert(conn.sentCount() == 1 && !conn.isClosed(), "accepted: CONNACK written, connection open")
		// protocol state in which the end strikes
		switch vChoice("state", 4) {
		case 0: // idle
		case 1: // QoS 1 publish in flight
			p := packet.NewPublish()
			p.Message = packet.Message{Topic: "x", QOS: 1}
			p.ID = 7
			conn.in <- p
			vQuiesce()
		case 2: // QoS 2 handshake open (PUBREC sent, PUBREL outstanding)
			p := packet.NewPublish()
			p.Message = packet.Message{Topic: "x", QOS: 2}
			p.ID = 7
			conn.in <- p
			vQuiesce()
		case 3: // subscribed, a QoS 1 message in flight towards the client
			s := packet.NewSubscribe()
			s.ID = 3
			s.Subscriptions = []packet.Subscription{{Topic: "x", QOS: 1}}
			conn.in <- s
			vQuiesce()
			p := packet.NewPublish()
			p.Message = packet.Message{Topic: "x", QOS: 1}
			p.ID = 8
			conn.in <- p
			vQuiesce()
		}
	} else {
		vAssert(conn.isClosed(), "refused connection is closed")
	}
	disconnect := false
	if accepted && hasWill {
		be.failPublish = vBool("willpublishfails") // the backend may refuse the will
	}
	if accepted {
		switch vChoice("cause", 6) {
		case 0:
			disconnect = true
			conn.in <- packet.NewDisconnect()
		case 1: // network error / EOF
			close(conn.in)
		case 2: // out-of-protocol packet
			conn.in <- mkConnect("c", true, nil)
		case 3: // displaced / closed by the broker
			c.Close()
		case 4: // backend shutdown
			be.Close(time.Second)
		case 5: // malformed packet: the transport reports a decode error and closes
			conn.Close()
		}
	}
	vQuiesce()
	want := 0
	if accepted && hasWill && !disconnect {
		want = 1
	}
	vAssert(be.publishesOf(c, "will") == want, "will published exactly once iff accepted and no DISCONNECT")
	if want == 1 {
		for i, m := range be.publishes {
			if m.Topic == "will" {
				vAssertEqBytes(m.Payload, wp, "will payload as supplied at connect")
				vAssert(m.QOS == wq, "will QoS as supplied at connect")
				vAssert(be.pubRetain[i] == wr, "will retain flag as supplied at connect")
			}
		}
	}
	// C14 release: closed signal, terminate exactly once per successful setup, no goroutine left
	vAssert(conn.isClosed(), "connection closed at the end")
	vAssert(chanClosed(c.Closed()), "closed signal fires")
	if accepted {
		vAssert(be.terminatesOf(c) == 1, "Terminate exactly once for a connection that was set up")
	} else {
		vAssert(be.terminatesOf(c) <= 1, "Terminate at most once when Setup failed")
	}
	vAssert(vLive() == 0, "no goroutine of the connection is left")
	vCover("c12-will-end")
}

// VerifC12Resume: the end strikes during the tail of connect processing of a resumed
// session (after the CONNACK was written): retransmission of a stored packet fails, or the
// backend's Restore fails. The client was accepted, so its will must be published.
type restoreBackend struct {
	*recBackend
	failRestore bool
}

func (r *restoreBackend) Restore(c *Client) error {
	if r.failRestore {
		return ErrClosing
	}
	return r.recBackend.Restore(c)
}

func VerifC12Resume() {
	be := &restoreBackend{recBackend: newRecBackend()}
	// first connection: persistent session with a QoS 1 message in flight, then lost
	c1, conn1 := startClient(be, mkConnect("c", false, nil), false)
	s := packet.NewSubscribe()
	s.ID = 1
	s.Subscriptions = []packet.Subscription{{Topic: "x", QOS: 1}}
	conn1.in <- s
	vQuiesce()
	pub, _ := mkClient(be.MemoryBackend, "p", true)
	vAssert(be.MemoryBackend.Publish(pub, &packet.Message{Topic: "x", Payload: []byte{1}, QOS: 1}, nil) == nil, "publish")
	vQuiesce()
	vAssert(countType(conn1, packet.PUBLISH) == 1, "message in flight")
	close(conn1.in)
	vQuiesce()
	vAssert(chanClosed(c1.Closed()), "first connection gone")
	// second connection resumes, with a will; sends may fail, Restore may fail
	be.failRestore = vBool("restorefails")
	conn2 := newVConn(true)
	c2 := NewClient(be, conn2)
	conn2.in <- mkConnect("c", false, &packet.Message{Topic: "will", Payload: []byte{7}, QOS: 0})
	vQuiesce()
	connackWritten := countType(conn2, packet.CONNACK) == 1
	ended := conn2.isClosed()
	if !ended {
		close(conn2.in) // network error later on
		vQuiesce()
	}
	if connackWritten {
		vCover("c12-resume-accepted")
		vAssert(be.publishesOf(c2, "will") == 1, "an accepted client that ends without DISCONNECT gets its will published exactly once, also when it ends during the resend phase")
	} else {
		vAssert(be.publishesOf(c2, "will") <= 1, "never more than one will")
	}
	vAssert(be.terminatesOf(c2) == 1, "Terminate exactly once")
	vAssert(chanClosed(c2.Closed()), "closed signal fires")
	vCover("c12-resume-end")
}

// vServer: a transport.Server whose Accept blocks until it is closed.
type vServer struct{ closeCh chan struct{} }

func (s *vServer) Accept() (transport.Conn, error) {
	<-s.closeCh
	return nil, errVConnClosed
}
func (s *vServer) Close() error   { close(s.closeCh); return nil }
func (s *vServer) Addr() net.Addr { return nil }

// VerifC12KeepAlive: the ends that depend on time and on the engine. The engine applies the
// connect timeout until a CONNECT was accepted, then the read timeout is 1.5 x the keep-alive
// requested by the client (0 or more than the maximum: the maximum, 5 min by default), so a
// silent client is detected; when the timeout expires the will is published once. An engine
// that was shut down takes no new connection: it is closed at once, nothing is set up.
func VerifC12KeepAlive() {
	be := newRecBackend()
	eng := NewEngine(be)
	eng.ConnectTimeout = 7 * time.Second
	srv := &vServer{closeCh: make(chan struct{})}
	eng.Accept(srv)
	conn := newVConn(false)
	if vBool("engineclosed") {
		srv.Close()
		eng.Close()
		vAssert(!eng.Handle(conn), "an engine that was shut down refuses the connection")
		vAssert(conn.isClosed(), "and closes it")
		conn.in <- mkConnect("c", true, &packet.Message{Topic: "will"})
		vQuiesce()
		vAssert(be.setups == 0 && len(be.publishes) == 0 && conn.sentCount() == 0, "nothing is processed for it")
		vAssert(vLive() == 0, "no goroutine is left")
		vCover("c12-engine-closed")
		return
	}
	vAssert(eng.Handle(conn), "a running engine takes the connection")
	vAssert(conn.timeout == 7*time.Second, "until a CONNECT arrives the connect timeout applies")
	vAssert(conn.limit == eng.ReadLimit, "the engine's read limit is applied")
	var ka uint16
	var want time.Duration
	switch vChoice("keepalive", 6) {
	case 0:
		ka, want = 0, 450*time.Second
	case 1:
		ka, want = 1, 1500*time.Millisecond
	case 2:
		ka, want = 10, 15*time.Second
	case 3:
		ka, want = 300, 450*time.Second
	case 4:
		ka, want = 301, 450*time.Second
	case 5:
		ka, want = 65535, 450*time.Second
	}
	cp := mkConnect("c", vBool("clean"), &packet.Message{Topic: "will", Payload: []byte{1}, QOS: 1})
	cp.KeepAlive = ka
	conn.in <- cp
	vQuiesce()
	vAssert(conn.sentCount() == 1 && !conn.isClosed(), "accepted: CONNACK written, connection open")
	vAssert(conn.timeout == want, "read timeout = 1.5 x the granted keep-alive")
	if vBool("ping") { // a PINGREQ in time keeps the connection
		conn.in <- packet.NewPingreq()
		vQuiesce()
		vAssert(conn.sentCount() == 2 && !conn.isClosed(), "PINGRESP, connection stays open")
		vAssert(len(be.publishes) == 0, "no will while the client is alive")
	}
	// keep-alive expiry: the transport's Receive fails with a timeout
	close(conn.in)
	vQuiesce()
	n := 0
	for _, m := range be.publishes {
		if m.Topic == "will" {
			n++
		}
	}
	vAssert(n == 1, "keep-alive expiry: the will is published exactly once")
	vAssert(conn.isClosed(), "connection closed")
	srv.Close()
	eng.Close()
	vAssert(vLive() == 0, "no goroutine is left")
	vCover("c12-keepalive-end")
}
