//go:build verif

package broker

import (
	"time"

	"github.com/256dpi/gomqtt/packet"
	"github.com/256dpi/gomqtt/session"
)

// vSession: the real MemorySession with a fault decision at every call.
type vSession struct {
	*session.MemorySession
	faults bool
}

func (s *vSession) SavePacket(d session.Direction, p packet.Generic) error {
	if s.faults && vFail("session-save") {
		return errVBackend
	}
	return s.MemorySession.SavePacket(d, p)
}
func (s *vSession) LookupPacket(d session.Direction, id packet.ID) (packet.Generic, error) {
	if s.faults && vFail("session-lookup") {
		return nil, errVBackend
	}
	return s.MemorySession.LookupPacket(d, id)
}
func (s *vSession) DeletePacket(d session.Direction, id packet.ID) error {
	if s.faults && vFail("session-delete") {
		return errVBackend
	}
	return s.MemorySession.DeletePacket(d, id)
}
func (s *vSession) AllPackets(d session.Direction) ([]packet.Generic, error) {
	if s.faults && vFail("session-all") {
		return nil, errVBackend
	}
	return s.MemorySession.AllPackets(d)
}

func outstanding(s *session.MemorySession) int {
	l, _ := s.AllPackets(session.Outgoing)
	return len(l)
}

// arbitrary valid pre-state: W window, o outstanding packets (PUBLISH q1/q2 or PUBREL), ids 1..o
func c16State(W int, faults bool) (*vBackend, *vSession, int, []int) {
	be := newVBackend(1)
	vs := &vSession{MemorySession: session.NewMemorySession(), faults: false}
	be.sess = vs
	be.resumed = true
	o := vLen("outstanding", 0, W)
	kinds := make([]int, o)
	for i := 0; i < o; i++ {
		id := packet.ID(i + 1)
		kinds[i] = vChoice("kind", 3)
		switch kinds[i] {
		case 0, 1:
			p := packet.NewPublish()
			p.ID = id
			p.Message = packet.Message{Topic: "t", Payload: []byte{byte(id)}, QOS: packet.QOS(kinds[i] + 1)}
			vs.MemorySession.SavePacket(session.Outgoing, p)
		case 2:
			vs.MemorySession.SavePacket(session.Outgoing, &packet.Pubrel{ID: id})
		}
		vs.Counter.NextID()
	}
	vs.faults = faults
	return be, vs, o, kinds
}

func directClient(be Backend, conn *vConn, sess Session, W, free int) *Client {
	c := &Client{backend: be, conn: conn, session: sess, closed: make(chan struct{})}
	c.state = clientConnected
	c.InflightMessages = W
	c.TokenTimeout = 30 * time.Second
	c.dequeueTokens = make(chan struct{}, W)
	for i := 0; i < free; i++ {
		c.dequeueTokens <- struct{}{}
	}
	c.publishTokens = make(chan struct{}, 10)
	c.subscribeTokens = make(chan struct{}, 10)
	c.ackQueue = make(chan packet.Generic, 20)
	return c
}

// monitor for every sent packet: store-before-send, window respected
func c16Monitor(vs *vSession, W int) func(packet.Generic) {
	return func(pkt packet.Generic) {
		if p, ok := pkt.(*packet.Publish); ok && p.Message.QOS > 0 {
			stored := vs.Outgoing.Lookup(p.ID)
			vAssert(stored == packet.Generic(p), "C08: a QoS>0 PUBLISH is recorded in the session under its id before it is sent")
			vAssert(outstanding(vs.MemorySession) <= W, "C16: never more than the window of unacknowledged QoS 1/2 messages")
		}
	}
}

// VerifC16Ack: one acknowledgement from an arbitrary valid state.
func VerifC16Ack() {
	W := vLen("W", 1, 3)
	be, vs, o, kinds := c16State(W, true)
	vAssume(o >= 1)
	held := vLen("held", 0, 1)
	free := W - o - held
	vAssume(free >= 0)
	conn := newVConn(true)
	conn.onSend = c16Monitor(vs, W)
	c := directClient(be, conn, vs, W, free)
	i := vLen("which", 0, o-1)
	id := packet.ID(i + 1)
	var err error
	kind := vChoice("ack", 3)
	switch kind {
	case 0:
		err = c.processPacket(&packet.Puback{ID: id})
	case 1:
		err = c.processPacket(&packet.Pubcomp{ID: id})
	case 2:
		err = c.processPacket(&packet.Pubrec{ID: id})
	}
	if err == nil {
		if kind < 2 {
			vCover("c16-ack-completed")
			vAssert(vs.Outgoing.Lookup(id) == nil, "C08: PUBACK/PUBCOMP removes the stored packet")
			vAssert(len(c.dequeueTokens) == free+1, "C16: a completed handshake returns its window slot")
			vAssert(outstanding(vs.MemorySession) == o-1, "one packet fewer outstanding")
		} else {
			vCover("c16-ack-pubrec")
			_, isRel := vs.Outgoing.Lookup(id).(*packet.Pubrel)
			vAssert(isRel, "C08: PUBREC replaces the stored PUBLISH by the PUBREL")
			vAssert(len(c.dequeueTokens) == free, "C16: PUBREC does not return the slot")
			vAssert(outstanding(vs.MemorySession) == o, "still outstanding until PUBCOMP")
			vAssert(conn.sentCount() == 1 && conn.sentAt(0).Type() == packet.PUBREL, "PUBREL sent")
		}
		vAssert(len(c.dequeueTokens)+outstanding(vs.MemorySession)+held == W, "C16 invariant: free + outstanding + held = window")
	} else {
		vCover("c16-ack-failed")
		vAssert(conn.isClosed(), "a failing step closes the connection")
		vAssert(outstanding(vs.MemorySession) >= o-1, "a failed step loses at most the acknowledged packet")
	}
	_ = kinds
	vCover("c16-ack-end")
}

// VerifC16Dequeue: the real dequeuer goroutine delivering one (two) queued message(s) from an
// arbitrary valid state.
func VerifC16Dequeue() {
	W := vLen("W", 1, 3)
	be, vs, o, _ := c16State(W, true)
	free := W - o
	conn := newVConn(true)
	conn.onSend = c16Monitor(vs, W)
	c := directClient(be, conn, vs, W, free)
	n := vLen("messages", 1, 2)
	for i := 0; i < n; i++ {
		be.queue <- &packet.Message{Topic: "t", Payload: []byte{byte(100 + i)}, QOS: symQOS("qos")}
	}
	c.tomb.Go(c.dequeuer)
	vQuiesce()
	if !conn.isClosed() && !conn.dead {
		vCover("c16-dequeue-alive")
		out := outstanding(vs.MemorySession)
		heldNow := W - len(c.dequeueTokens) - out
		vAssert(heldNow == 0 || heldNow == 1, "C16 invariant: free + outstanding + held = window, held in {0,1}")
		vAssert(out <= W, "C16: outstanding never exceeds the window")
		if free == 0 {
			vAssert(conn.sentCount() == 0, "C16: nothing is sent while the window is full")
		} else {
			vAssert(conn.sentCount() >= 1, "C16: delivery flows while slots are free")
		}
	}
	c.tomb.Kill(nil)
	vQuiesce()
	vCover("c16-dequeue-end")
}

// VerifC16Resume: reconnect with stored packets: CONNACK first, then exactly the stored
// packets (PUBLISH flagged duplicate, PUBREL as PUBREL), one window slot charged each.
func VerifC16Resume() {
	W := vLen("W", 1, 3)
	be, vs, o, kinds := c16State(W, false)
	be.resumed = true
	conn := newVConn(true)
	conn.onSend = c16Monitor(vs, W)
	cl := NewClient(be, conn)
	cl.InflightMessages = W
	conn.in <- mkConnect("sub", false, nil)
	vQuiesce()
	if !conn.dead && !conn.isClosed() {
		vCover("c16-resume-alive")
		vAssert(conn.sentCount() == 1+o, "CONNACK plus exactly the stored packets are sent")
		if conn.sentCount() == 1+o {
			ack, ok := conn.sentAt(0).(*packet.Connack)
			vAssert(ok && ack.SessionPresent, "CONNACK first, reporting the resumed session")
			seen := make([]bool, o)
			for k := 1; k <= o; k++ {
				id, _ := packet.GetID(conn.sentAt(k))
				idx := int(id) - 1
				vAssert(idx >= 0 && idx < o && !seen[idx], "each stored packet is resent once")
				if idx >= 0 && idx < o {
					seen[idx] = true
					switch p := conn.sentAt(k).(type) {
					case *packet.Publish:
						vAssert(kinds[idx] < 2, "a stored PUBREL is never resent as PUBLISH")
						vAssert(p.Dup, "a resent PUBLISH is flagged duplicate")
						vAssert(int(p.Message.QOS) == kinds[idx]+1 && len(p.Message.Payload) == 1 && p.Message.Payload[0] == byte(id), "resent PUBLISH otherwise unchanged")
					case *packet.Pubrel:
						vAssert(kinds[idx] == 2, "a stored PUBLISH is not resent as PUBREL")
					default:
						vAssert(false, "only PUBLISH and PUBREL are resent")
					}
				}
			}
		}
		out := outstanding(vs.MemorySession)
		vAssert(out == o, "the store is unchanged by the resend")
		heldNow := W - len(cl.dequeueTokens) - out
		vAssert(heldNow == 0 || heldNow == 1, "C16: resent packets are charged against the window")
	} else {
		vCover("c16-resume-failed")
		vAssert(outstanding(vs.MemorySession) == o, "C08: a failure during the resend leaves the store intact")
	}
	vCover("c16-resume-end")
}

// VerifC16Flow: the real client goroutines with a window of 1: after an idle period of any
// length (every pending timer fires) three QoS 1 messages are queued; the subscriber
// acknowledges each one as it arrives. All three are delivered, one at a time, in order, and
// the connection stays open: waiting for a slot is bounded by the time since the wait began,
// not by the age of the connection.
func VerifC16Flow() {
	be := newRecBackend()
	be.ClientInflightMessages = 1
	_, conn := startClient(be, mkConnect("c", vBool("clean"), nil), false)
	s := packet.NewSubscribe()
	s.ID = 1
	s.Subscriptions = []packet.Subscription{{Topic: "t", QOS: 1}}
	conn.in <- s
	vQuiesce()
	for i := 0; i < 3 && vFireTimers(); i++ { // time passes on the idle connection
		vQuiesce()
	}
	vAssert(!conn.isClosed(), "an idle connection is not closed by the broker's token timers")
	pub, _ := mkClient(be.MemoryBackend, "p", true)
	for i := 0; i < 3; i++ {
		vAssert(be.MemoryBackend.Publish(pub, &packet.Message{Topic: "t", Payload: []byte{byte(i + 1)}, QOS: 1}, nil) == nil, "publish")
	}
	for i := 0; i < 3; i++ {
		vQuiesce()
		vAssert(countType(conn, packet.PUBLISH) == i+1, "C16: exactly one more message is sent per acknowledgement")
		if countType(conn, packet.PUBLISH) != i+1 {
			return
		}
		p := conn.sentAt(conn.sentCount() - 1).(*packet.Publish)
		vAssert(p.Message.Payload[0] == byte(i+1), "in order")
		conn.in <- &packet.Puback{ID: p.ID}
	}
	vQuiesce()
	vAssert(!conn.isClosed(), "C16: delivery keeps flowing while acknowledgements flow; the connection stays open")
	vCover("c16-flow-end")
}
