//go:build verif

package broker

import (
	"github.com/256dpi/gomqtt/packet"
	"github.com/256dpi/gomqtt/session"
)

// evBackend adds an event log to recBackend (order of will / terminate / CONNACK).
type evBackend struct {
	*recBackend
	events []string
}

func (e *evBackend) Publish(c *Client, msg *packet.Message, ack Ack) error {
	if msg.Topic == "will" {
		e.mu.Lock()
		e.events = append(e.events, "will:"+c.id+c.Ref.(string))
		e.mu.Unlock()
	}
	return e.recBackend.Publish(c, msg, ack)
}

func (e *evBackend) Terminate(c *Client) error {
	e.mu.Lock()
	e.events = append(e.events, "terminate:"+c.Ref.(string))
	e.mu.Unlock()
	return e.recBackend.Terminate(c)
}

func (e *evBackend) log(s string) {
	e.mu.Lock()
	e.events = append(e.events, s)
	e.mu.Unlock()
}

func (e *evBackend) index(s string) int {
	e.mu.Lock()
	defer e.mu.Unlock()
	for i, x := range e.events {
		if x == s {
			return i
		}
	}
	return -1
}

// VerifC13Takeover: a new connection with an id in use displaces the old one, which is
// fully terminated (will, backend resources, goroutines) before the newcomer's CONNACK;
// the persistent session passes on intact.
func VerifC13Takeover() {
	be := &evBackend{recBackend: newRecBackend()}
	clean1, clean2 := vBool("clean1"), vBool("clean2")
	full := vBool("fullwindow") // inflight window of 1, so one unacknowledged message fills it
	if full {
		be.ClientInflightMessages = 1
	}
	conn1 := newVConn(false)
	c1 := NewClient(be, conn1)
	c1.Ref = "1"
	conn1.in <- mkConnect("x", clean1, &packet.Message{Topic: "will", Payload: []byte{9}})
	vQuiesce()
	s := packet.NewSubscribe()
	s.ID = 1
	s.Subscriptions = []packet.Subscription{{Topic: "t", QOS: 1}}
	conn1.in <- s
	vQuiesce()
	inflight := vBool("inflight")
	pub, _ := mkClient(be.MemoryBackend, "p", true)
	if inflight {
		vAssert(be.MemoryBackend.Publish(pub, &packet.Message{Topic: "t", Payload: []byte{1}, QOS: 1}, nil) == nil, "publish")
		vQuiesce()
		vAssert(countType(conn1, packet.PUBLISH) == 1, "message in flight towards the old connection")
		if full { // the window (1) is full: a second message stays queued, the dequeuer waits for a slot
			vAssert(be.MemoryBackend.Publish(pub, &packet.Message{Topic: "t", Payload: []byte{2}, QOS: 1}, nil) == nil, "publish")
			vQuiesce()
			vAssert(countType(conn1, packet.PUBLISH) == 1, "window of 1 respected")
		}
	}
	sess1 := c1.session.(*memorySession)
	// the old connection may die by itself at the same moment
	if vBool("olddies") {
		close(conn1.in)
	}
	conn2 := newVConn(false)
	conn2.onSend = func(p packet.Generic) {
		if p.Type() == packet.CONNACK {
			be.log("connack:2")
		}
	}
	c2 := NewClient(be, conn2)
	c2.Ref = "2"
	conn2.in <- mkConnect("x", clean2, nil)
	vQuiesce()

	vAssert(conn1.isClosed(), "the older connection is closed")
	vAssert(chanClosed(c1.Closed()), "the older client is fully terminated")
	vAssert(be.terminatesOf(c1) == 1, "backend resources of the old connection released exactly once")
	vAssert(be.publishesOf(c1, "will") == 1, "the displaced client's will is published exactly once")
	ca := be.index("connack:2")
	vAssert(ca >= 0, "the newcomer receives its CONNACK")
	vAssert(be.index("will:x1") >= 0 && be.index("will:x1") < ca, "will published before the newcomer's CONNACK")
	vAssert(be.index("terminate:1") >= 0 && be.index("terminate:1") < ca, "old connection terminated before the newcomer's CONNACK")
	vAssert(!conn2.isClosed(), "the newcomer stays connected")
	vAssert(be.activeClients["x"] == c2 && len(be.activeClients) == 2, "exactly one active connection for the id")
	sess2 := c2.session.(*memorySession)
	vAssert(sess2.activeClient == c2, "the session is attached to the newcomer")
	vAssert(vLive() == 4, "only the newcomer's goroutines are left")
	if !clean1 && !clean2 {
		vCover("c13-persistent")
		vAssert(sess2 == sess1, "the persistent session passes to the newcomer")
		vAssert(sess2.subscriptions.Count() == 1, "subscriptions pass to the newcomer")
		ack, _ := conn2.sentAt(0).(*packet.Connack)
		vAssert(ack != nil && ack.SessionPresent, "CONNACK reports the session as present")
		out, _ := sess2.AllPackets(session.Outgoing)
		if inflight {
			vAssert(len(out) == 1, "the in-flight message is still recorded, once")
			vAssert(countType(conn2, packet.PUBLISH) == 1, "and is retransmitted to the newcomer, once")
			if full {
				first, _ := conn2.sentAt(1).(*packet.Publish)
				vAssert(first != nil && first.Dup && first.Message.Payload[0] == 1, "the retransmission is the in-flight message, flagged duplicate")
				conn2.in <- &packet.Puback{ID: first.ID}
				vQuiesce()
				vAssert(countType(conn2, packet.PUBLISH) == 2, "the queued message passes to the newcomer and is delivered once a slot is free")
				second, _ := conn2.sentAt(2).(*packet.Publish)
				vAssert(second != nil && !second.Dup && second.Message.Payload[0] == 2, "it is the queued message, as a new delivery")
			}
		} else {
			vAssert(len(out) == 0 && countType(conn2, packet.PUBLISH) == 0, "nothing invented")
		}
	} else {
		vCover("c13-clean")
		ack, _ := conn2.sentAt(0).(*packet.Connack)
		vAssert(ack != nil && !ack.SessionPresent, "no session present after a clean connect on either side")
	}
	vCover("c13-takeover-end")
}

// VerifC13Race: two newcomers present the id of a live connection at the same time.
func VerifC13Race() {
	be := &evBackend{recBackend: newRecBackend()}
	conn1 := newVConn(false)
	c1 := NewClient(be, conn1)
	c1.Ref = "1"
	conn1.in <- mkConnect("x", vBool("clean1"), nil)
	vQuiesce()
	conn2, conn3 := newVConn(false), newVConn(false)
	c2 := NewClient(be, conn2)
	c2.Ref = "2"
	c3 := NewClient(be, conn3)
	c3.Ref = "3"
	conn2.in <- mkConnect("x", vBool("clean2"), nil)
	conn3.in <- mkConnect("x", vBool("clean3"), nil)
	vQuiesce()
	open := 0
	var winner *Client
	if !conn1.isClosed() {
		open++
	}
	if !conn2.isClosed() {
		open++
		winner = c2
	}
	if !conn3.isClosed() {
		open++
		winner = c3
	}
	vAssert(conn1.isClosed(), "the original connection was displaced")
	vAssert(open == 1, "exactly one of the simultaneous attempts ends up connected")
	if open == 1 {
		vAssert(be.activeClients["x"] == winner, "the connected one is the active client")
		vAssert(winner.session.(*memorySession).activeClient == winner, "and owns the session")
	}
	vAssert(vLive() == 4, "none of the broker's goroutines is left blocked: only the winner's four")
	vAssert(be.terminatesOf(c1) == 1, "old connection terminated once")
	vCover("c13-race-end")
}

// stuckBackend keeps the displaced connection from terminating: the publication of its will
// blocks until the gate opens (a backend that is slow to accept the will), so Closed() of
// that client stays open and every contender's Setup runs into KillTimeout.
type stuckBackend struct {
	*evBackend
	gate chan struct{}
}

func (s *stuckBackend) Publish(c *Client, msg *packet.Message, ack Ack) error {
	if msg.Topic == "will" && c.Ref.(string) == "1" {
		<-s.gate
	}
	return s.evBackend.Publish(c, msg, ack)
}

// VerifC13Stuck: the displaced connection (persistent session) does not finish terminating
// (its will publication hangs). Contenders arrive one after the other (clean or not); each
// one's wait runs into KillTimeout (the timer fires at quiescence) and is refused. While the
// old connection is not fully terminated no contender may be accepted - in particular not
// the second one, after the first refused contender has itself been cleaned up (its
// Terminate runs with the same client id). Once the old connection does terminate, the next
// contender is accepted and owns the session alone.
func VerifC13Stuck() {
	be := &stuckBackend{evBackend: &evBackend{recBackend: newRecBackend()}, gate: make(chan struct{})}
	conn1 := newVConn(false)
	c1 := NewClient(be, conn1)
	c1.Ref = "1"
	clean1 := vBool("clean1")
	conn1.in <- mkConnect("x", clean1, &packet.Message{Topic: "will", Payload: []byte{9}})
	vQuiesce()
	vAssert(!conn1.isClosed() && be.activeClients["x"] == c1, "first connection accepted")
	refs := []string{"2", "3"}
	for i := 0; i < 2; i++ {
		conn := newVConn(false)
		c := NewClient(be, conn)
		c.Ref = refs[i]
		conn.in <- mkConnect("x", vBool("clean"), nil)
		vQuiesce()
		for k := 0; k < 3 && !conn.isClosed() && vFireTimers(); k++ { // KillTimeout elapses
			vQuiesce()
		}
		vAssert(!chanClosed(c1.Closed()), "the displaced connection is still terminating")
		accepted := false
		for j := 0; j < conn.sentCount(); j++ {
			if a, ok := conn.sentAt(j).(*packet.Connack); ok && a.ReturnCode == packet.ConnectionAccepted {
				accepted = true
			}
		}
		vAssert(!accepted, "no contender is accepted while the displaced connection is not fully terminated")
		vAssert(conn.isClosed(), "a contender that cannot take over is disconnected")
		vAssert(chanClosed(c.Closed()), "and fully cleaned up")
	}
	vCover("c13-stuck-refused")
	close(be.gate)
	vQuiesce()
	vAssert(chanClosed(c1.Closed()), "the displaced connection terminates once its will is accepted")
	vAssert(be.terminatesOf(c1) == 1 && be.publishesOf(c1, "will") == 1, "terminated once, will published once")
	conn4 := newVConn(false)
	c4 := NewClient(be, conn4)
	c4.Ref = "4"
	conn4.in <- mkConnect("x", false, nil)
	vQuiesce()
	vAssert(!conn4.isClosed() && be.activeClients["x"] == c4, "the next contender is accepted")
	vAssert(c4.session.(*memorySession).activeClient == c4, "and owns the session")
	ack, _ := conn4.sentAt(0).(*packet.Connack)
	vAssert(ack != nil && ack.SessionPresent == !clean1, "the persistent session survived the refused takeovers")
	vAssert(vLive() == 4, "only the accepted connection's goroutines are left")
	vCover("c13-stuck-end")
}
