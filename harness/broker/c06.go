//go:build verif

package broker

import (
	"github.com/256dpi/gomqtt/packet"
	"github.com/256dpi/gomqtt/topic"
)

// Backend-level harnesses (real MemoryBackend, passive Client values built in-package).

func mkClient(m *MemoryBackend, id string, clean bool) (*Client, *memorySession) {
	c := &Client{backend: m, conn: newVConn(false), closed: make(chan struct{})}
	c.id = id
	s, _, err := m.Setup(c, id, clean)
	vAssert(err == nil, "Setup succeeds")
	c.session = s
	return c, s.(*memorySession)
}

func queued(s *memorySession) int { return len(s.temporaryQueue) + len(s.storedQueue) }

func minQ(a, b packet.QOS) packet.QOS {
	if a < b {
		return a
	}
	return b
}

func symFilter(tag string, L int) string {
	f := vString(tag, L)
	vAssume(topic.VerifValidFilter(f, L))
	return f
}

func symName(tag string, L int) string {
	n := vString(tag, L)
	vAssume(topic.VerifValidName(n, L))
	return n
}

func symMessage(L int) *packet.Message {
	return &packet.Message{
		Topic:   symName("topic", L),
		Payload: vBytes("payload", 70000),
		QOS:     symQOS("pubqos"),
		Retain:  vBool("retain"),
	}
}

func checkDelivered(m *MemoryBackend, c *Client, orig *packet.Message, topicStr string, payload []byte) *packet.Message {
	got, _, err := m.Dequeue(c)
	vAssert(err == nil && got != nil, "a queued message can be dequeued")
	if got == nil {
		return nil
	}
	vAssertEqString(got.Topic, topicStr, "delivered topic unchanged")
	vAssertEqBytes(got.Payload, payload, "delivered payload unchanged")
	vAssert(!got.Retain, "live delivery has the retain flag cleared")
	return got
}

// VerifC06Overlap: one subscriber, one SUBSCRIBE with two (possibly overlapping, possibly equal)
// filters at different QoS; one publish.
func VerifC06Overlap() {
	L := vParam("L", 2)
	m := NewMemoryBackend()
	sub, ss := mkClient(m, "s", true)
	pub, _ := mkClient(m, "p", true)
	f1, f2 := symFilter("f1", L), symFilter("f2", L)
	q1, q2 := symQOS("q1"), symQOS("q2")
	err := m.Subscribe(sub, []packet.Subscription{{Topic: f1, QOS: q1}, {Topic: f2, QOS: q2}}, nil)
	vAssert(err == nil, "Subscribe succeeds")
	msg := symMessage(L)
	tp, pl, pq := msg.Topic, msg.Payload, msg.QOS
	vAssume(!msg.Retain) // retained handling is C11
	err = m.Publish(pub, msg, nil)
	vAssert(err == nil, "Publish succeeds")
	m1, m2 := topic.VerifRefMatch(f1, tp), topic.VerifRefMatch(f2, tp)
	if m1 || m2 {
		vCover("c06-overlap-delivered")
		vAssert(queued(ss) == 1, "exactly one copy for a client with matching subscriptions")
		got := checkDelivered(m, sub, msg, tp, pl)
		if got != nil {
			// QoS = min(published, granted QoS of one of the matching subscriptions);
			// a repeated filter replaces the earlier grant
			ok1 := m1 && f1 != f2 && got.QOS == minQ(pq, q1)
			ok2 := m2 && got.QOS == minQ(pq, q2)
			vAssert(ok1 || ok2, "delivery QoS = min(published QoS, QoS granted to a matching subscription)")
		}
	} else {
		vCover("c06-overlap-none")
		vAssert(queued(ss) == 0, "no delivery without a matching subscription")
	}
	vAssert(queued(m.temporarySessions[pub]) == 0, "the publisher (not subscribed) receives nothing")
	vCover("c06-overlap-end")
}

// VerifC06TwoClients: two subscribers with one filter each; exactly the matching ones receive.
func VerifC06TwoClients() {
	L := vParam("L", 2)
	m := NewMemoryBackend()
	a, sa := mkClient(m, "a", vBool("cleanA"))
	b, sb := mkClient(m, "b", vBool("cleanB"))
	pub, _ := mkClient(m, "p", true)
	fa, fb := symFilter("fa", L), symFilter("fb", L)
	qa, qb := symQOS("qa"), symQOS("qb")
	vAssert(m.Subscribe(a, []packet.Subscription{{Topic: fa, QOS: qa}}, nil) == nil, "Subscribe a")
	vAssert(m.Subscribe(b, []packet.Subscription{{Topic: fb, QOS: qb}}, nil) == nil, "Subscribe b")
	msg := symMessage(L)
	tp, pl, pq := msg.Topic, msg.Payload, msg.QOS
	vAssume(!msg.Retain)
	vAssert(m.Publish(pub, msg, nil) == nil, "Publish succeeds")
	if topic.VerifRefMatch(fa, tp) {
		vAssert(queued(sa) == 1, "matching client a gets one copy")
		if got := checkDelivered(m, a, msg, tp, pl); got != nil {
			vAssert(got.QOS == minQ(pq, qa), "QoS capped for a")
		}
	} else {
		vAssert(queued(sa) == 0, "non-matching client a gets nothing")
	}
	if topic.VerifRefMatch(fb, tp) {
		vAssert(queued(sb) == 1, "matching client b gets one copy")
		if got := checkDelivered(m, b, msg, tp, pl); got != nil {
			vAssert(got.QOS == minQ(pq, qb), "QoS capped for b")
		}
	} else {
		vAssert(queued(sb) == 0, "non-matching client b gets nothing")
	}
	vCover("c06-twoclients-end")
}

// VerifC06Resubscribe: a second request on possibly the same filter (replacement) or an
// unsubscribe, then a publish.
func VerifC06Resubscribe() {
	L := vParam("L", 2)
	m := NewMemoryBackend()
	sub, ss := mkClient(m, "s", true)
	pub, _ := mkClient(m, "p", true)
	f1 := symFilter("f1", L)
	q1 := symQOS("q1")
	vAssert(m.Subscribe(sub, []packet.Subscription{{Topic: f1, QOS: q1}}, nil) == nil, "Subscribe")
	f2 := symFilter("f2", L)
	q2 := symQOS("q2")
	unsub := vBool("unsubscribe")
	acked := false
	if unsub {
		vAssert(m.Unsubscribe(sub, []string{f2}, func() { acked = true }) == nil, "Unsubscribe")
		vAssert(acked, "unsubscribe acknowledged")
	} else {
		vAssert(m.Subscribe(sub, []packet.Subscription{{Topic: f2, QOS: q2}}, nil) == nil, "Subscribe again")
	}
	msg := symMessage(L)
	tp, pl, pq := msg.Topic, msg.Payload, msg.QOS
	vAssume(!msg.Retain)
	vAssert(m.Publish(pub, msg, nil) == nil, "Publish succeeds")
	m1, m2 := topic.VerifRefMatch(f1, tp), topic.VerifRefMatch(f2, tp)
	same := f1 == f2
	var live1, live2 bool
	if unsub {
		live1, live2 = m1 && !same, false
	} else {
		live1, live2 = m1 && !same, m2
	}
	if live1 || live2 {
		vAssert(queued(ss) == 1, "one copy while a subscription matches")
		if got := checkDelivered(m, sub, msg, tp, pl); got != nil {
			vAssert((live1 && got.QOS == minQ(pq, q1)) || (live2 && got.QOS == minQ(pq, q2)), "QoS of a live matching subscription (replacement honoured)")
		}
	} else {
		vAssert(queued(ss) == 0, "nothing delivered on account of a removed or non-matching filter")
	}
	vCover("c06-resubscribe-end")
}

// symQOS: a symbolic QoS level 0..2 (one solver variable instead of three paths).
func symQOS(tag string) packet.QOS {
	q := packet.QOS(vU8(tag))
	vAssume(q <= 2)
	return q
}
