//go:build verif

package broker

import "github.com/256dpi/gomqtt/packet"

// VerifC14Offender: whatever bytes a connected client sends, only its own connection may
// be closed; a well-behaved witness stays connected and keeps receiving; nothing panics.
func VerifC14Offender() {
	be := newRecBackend()
	N := vParam("N", 1)
	// witness subscribed to everything
	wconn := newVConn(false)
	wconn.encode = true
	w := NewClient(be, wconn)
	wconn.in <- mkConnect("w", true, nil)
	vQuiesce()
	s := packet.NewSubscribe()
	s.ID = 1
	s.Subscriptions = []packet.Subscription{{Topic: "#", QOS: 1}}
	wconn.in <- s
	vQuiesce()
	vAssert(wconn.sentCount() == 2 && !wconn.isClosed(), "witness connected and subscribed")
	base := wconn.sentCount()

	o, oconn := startClient(be, mkConnect("o", true, nil), false)
	_ = o
	for i := 0; i < N; i++ {
		src := vBytes("pkt", vParam("B", 8))
		n, t := packet.DetectPacket(src)
		pkt, err := t.New()
		if err != nil || n <= 0 || n > len(src) {
			close(oconn.in) // the stream decoder reports an error, the transport closes
			break
		}
		if _, err = pkt.Decode(src[:n]); err != nil {
			close(oconn.in)
			break
		}
		oconn.in <- pkt
		vQuiesce()
	}
	vQuiesce()
	vAssert(!wconn.isClosed(), "the witness connection is never closed on account of another client")
	vAssert(!chanClosed(w.Closed()), "the witness client keeps running")
	vAssert(wconn.encodeErrors == 0, "nothing forwarded to the witness fails to encode")
	// the witness still receives
	pub, _ := mkClient(be.MemoryBackend, "p", true)
	before := wconn.sentCount()
	vAssert(be.MemoryBackend.Publish(pub, &packet.Message{Topic: "marker", QOS: 0}, nil) == nil, "marker publish")
	vQuiesce()
	vAssert(wconn.sentCount() == before+1, "the witness still receives messages")
	if wconn.sentCount() == before+1 {
		p, ok := wconn.sentAt(before).(*packet.Publish)
		vAssert(ok && p.Message.Topic == "marker", "the marker reaches the witness")
	}
	_ = base
	vCover("c14-offender-end")
}

// VerifC14UnsubscribeQueued: a client unsubscribes while messages for the removed filter are
// still queued behind its full inflight window, then acknowledges: nothing panics, the
// connection and a witness stay up.
func VerifC14UnsubscribeQueued() {
	be := newRecBackend()
	be.ClientInflightMessages = 1
	w, wconn := startClient(be, mkConnect("w", true, nil), false)
	c, conn := startClient(be, mkConnect("c", vBool("clean"), nil), false)
	s := packet.NewSubscribe()
	s.ID = 1
	s.Subscriptions = []packet.Subscription{{Topic: "x", QOS: symQOS("subqos")}}
	conn.in <- s
	vQuiesce()
	pub, _ := mkClient(be.MemoryBackend, "p", true)
	n := vLen("messages", 2, 3)
	for i := 0; i < n; i++ {
		vAssert(be.MemoryBackend.Publish(pub, &packet.Message{Topic: "x", Payload: []byte{byte(i)}, QOS: symQOS("pubqos")}, nil) == nil, "publish")
		vQuiesce()
	}
	u := packet.NewUnsubscribe()
	u.ID = 2
	u.Topics = []string{"x"}
	conn.in <- u
	vQuiesce()
	// acknowledge whatever is in flight so that the queued messages are dequeued
	for round := 0; round < n; round++ {
		for i := 0; i < conn.sentCount(); i++ {
			if p, ok := conn.sentAt(i).(*packet.Publish); ok && p.Message.QOS > 0 {
				if p.Message.QOS == 1 {
					conn.in <- &packet.Puback{ID: p.ID}
				} else {
					conn.in <- &packet.Pubcomp{ID: p.ID}
				}
				vQuiesce()
			}
		}
	}
	vAssert(!conn.isClosed() && !chanClosed(c.Closed()), "the client that unsubscribed stays connected")
	vAssert(!wconn.isClosed() && !chanClosed(w.Closed()), "the witness stays connected")
	conn.in <- packet.NewPingreq()
	vQuiesce()
	vAssert(countType(conn, packet.PINGRESP) == 1, "the broker still answers the client")
	vCover("c14-unsubscribe-queued-end")
}
