//go:build verif

package broker

import "github.com/256dpi/gomqtt/packet"

// VerifC14Offender: whatever bytes a connected client sends, only its own connection may
// be closed; a well-behaved witness stays connected and keeps receiving; nothing panics.
func VerifC14Offender() {
	be := newRecBackend()
	N := vParam("N", 1)
	// witness subscribed to everything
	wconn := newVConn(false)
	wconn.encode = true
	w := NewClient(be, wconn)
	wconn.in <- mkConnect("w", true, nil)
	vQuiesce()
	s := packet.NewSubscribe()
	s.ID = 1
	s.Subscriptions = []packet.Subscription{{Topic: "#", QOS: 1}}
	wconn.in <- s
	vQuiesce()
	vAssert(wconn.sentCount() == 2 && !wconn.isClosed(), "witness connected and subscribed")
	base := wconn.sentCount()

	o, oconn := startClient(be, mkConnect("o", true, nil), false)
	_ = o
	for i := 0; i < N; i++ {
		src := vBytes("pkt", vParam("B", 8))
		n, t := packet.DetectPacket(src)
		pkt, err := t.New()
		if err != nil || n <= 0 || n > len(src) {
			close(oconn.in) // the stream decoder reports an error, the transport closes
			break
		}
		if _, err = pkt.Decode(src[:n]); err != nil {
			close(oconn.in)
			break
		}
		oconn.in <- pkt
		vQuiesce()
	}
	vQuiesce()
	vAssert(!wconn.isClosed(), "the witness connection is never closed on account of another client")
	vAssert(!chanClosed(w.Closed()), "the witness client keeps running")
	vAssert(wconn.encodeErrors == 0, "nothing forwarded to the witness fails to encode")
	// the witness still receives
	pub, _ := mkClient(be.MemoryBackend, "p", true)
	before := wconn.sentCount()
	vAssert(be.MemoryBackend.Publish(pub, &packet.Message{Topic: "marker", QOS: 0}, nil) == nil, "marker publish")
	vQuiesce()
	vAssert(wconn.sentCount() == before+1, "the witness still receives messages")
	if wconn.sentCount() == before+1 {
		p, ok := wconn.sentAt(before).(*packet.Publish)
		vAssert(ok && p.Message.Topic == "marker", "the marker reaches the witness")
	}
	_ = base
	vCover("c14-offender-end")
}

// VerifC14UnsubscribeQueued: a client unsubscribes while messages for the removed filter are
// still queued behind its full inflight window, then acknowledges: nothing panics, the
// connection and a witness stay up.
func VerifC14UnsubscribeQueued() {
	be := newRecBackend()
	be.ClientInflightMessages = 1
	w, wconn := startClient(be, mkConnect("w", true, nil), false)
	c, conn := startClient(be, mkConnect("c", vBool("clean"), nil), false)
	s := packet.NewSubscribe()
	s.ID = 1
	s.Subscriptions = []packet.Subscription{{Topic: "x", QOS: symQOS("subqos")}}
	conn.in <- s
	vQuiesce()
	pub, _ := mkClient(be.MemoryBackend, "p", true)
	n := vLen("messages", 2, 3)
	for i := 0; i < n; i++ {
		vAssert(be.MemoryBackend.Publish(pub, &packet.Message{Topic: "x", Payload: []byte{byte(i)}, QOS: symQOS("pubqos")}, nil) == nil, "publish")
		vQuiesce()
	}
	u := packet.NewUnsubscribe()
	u.ID = 2
	u.Topics = []string{"x"}
	conn.in <- u
	vQuiesce()
	// acknowledge whatever is in flight so that the queued messages are dequeued
	for round := 0; round < n; round++ {
		for i := 0; i < conn.sentCount(); i++ {
			if p, ok := conn.sentAt(i).(*packet.Publish); ok && p.Message.QOS > 0 {
				if p.Message.QOS == 1 {
					conn.in <- &packet.Puback{ID: p.ID}
				} else {
					conn.in <- &packet.Pubcomp{ID: p.ID}
				}
				vQuiesce()
			}
		}
	}
	vAssert(!conn.isClosed() && !chanClosed(c.Closed()), "the client that unsubscribed stays connected")
	vAssert(!wconn.isClosed() && !chanClosed(w.Closed()), "the witness stays connected")
	conn.in <- packet.NewPingreq()
	vQuiesce()
	vAssert(countType(conn, packet.PINGRESP) == 1, "the broker still answers the client")
	vCover("c14-unsubscribe-queued-end")
}

// VerifC14SlowSubscriber: a subscriber that stops acknowledging fills its window (1) and its
// queue (1); another client's publish waits for room (MemoryBackend's back-pressure). When the
// slow subscriber's connection ends, the waiting publisher is released, the subscriber is
// terminated exactly once, and the broker keeps serving everybody else.
func VerifC14SlowSubscriber() {
	be := newRecBackend()
	be.SessionQueueSize = 1
	be.ClientInflightMessages = 1
	s, sconn := startClient(be, mkConnect("s", vBool("clean"), nil), false)
	sub := packet.NewSubscribe()
	sub.ID = 1
	sub.Subscriptions = []packet.Subscription{{Topic: "t", QOS: 1}}
	sconn.in <- sub
	vQuiesce()
	pub, _ := mkClient(be.MemoryBackend, "p", true)
	done := make(chan int, 1)
	go func() {
		for i := 0; i < 3; i++ {
			be.MemoryBackend.Publish(pub, &packet.Message{Topic: "t", Payload: []byte{byte(i + 1)}, QOS: 1}, nil)
		}
		done <- 1
	}()
	vQuiesce()
	vAssert(countType(sconn, packet.PUBLISH) == 1, "one message in flight, one queued, the third publish waits for room")
	switch vChoice("how", 3) {
	case 0:
		close(sconn.in) // network error
	case 1:
		s.Close() // closed by the broker
	case 2:
		sconn.in <- mkConnect("s", true, nil) // out-of-protocol packet
	}
	<-done // the waiting publisher is released
	vQuiesce()
	vAssert(sconn.isClosed() && chanClosed(s.Closed()), "the slow subscriber's connection is closed and its closed signal fires")
	vAssert(be.terminatesOf(s) == 1, "the backend is told about its termination exactly once")
	w, ws := mkClient(be.MemoryBackend, "w", true)
	vAssert(be.MemoryBackend.Subscribe(w, []packet.Subscription{{Topic: "t", QOS: 0}}, nil) == nil, "another client can still subscribe")
	vAssert(be.MemoryBackend.Publish(pub, &packet.Message{Topic: "t", Payload: []byte{9}}, nil) == nil, "and publish")
	vAssert(queued(ws) == 1, "and receive")
	vAssert(vLive() == 0, "no goroutine is left blocked")
	vCover("c14-slow-subscriber-end")
}

// VerifC14OwnQueueFull: a client subscribed to its own topic publishes without ever
// acknowledging what comes back: window (1) and queue (1) fill up and the next publish cannot
// be queued. Only this client's connection is closed; it is terminated exactly once, nothing
// stays blocked, and a witness keeps receiving.
func VerifC14OwnQueueFull() {
	be := newRecBackend()
	be.SessionQueueSize = 1
	be.ClientInflightMessages = 1
	w, wconn := startClient(be, mkConnect("w", true, nil), false)
	ws := packet.NewSubscribe()
	ws.ID = 1
	ws.Subscriptions = []packet.Subscription{{Topic: "m", QOS: 0}}
	wconn.in <- ws
	vQuiesce()
	c, conn := startClient(be, mkConnect("c", vBool("clean"), nil), false)
	s := packet.NewSubscribe()
	s.ID = 1
	s.Subscriptions = []packet.Subscription{{Topic: "t", QOS: 1}}
	conn.in <- s
	vQuiesce()
	for i := 0; i < 4 && !conn.isClosed(); i++ {
		p := packet.NewPublish()
		p.Message = packet.Message{Topic: "t", Payload: []byte{byte(i)}, QOS: 1}
		p.ID = packet.ID(10 + i)
		conn.in <- p
		vQuiesce()
	}
	vAssert(countType(conn, packet.PUBLISH) == 1, "window of 1 respected")
	if conn.isClosed() {
		vCover("c14-own-queue-full-closed")
		vAssert(chanClosed(c.Closed()), "the offender's closed signal fires")
		vAssert(be.terminatesOf(c) == 1, "the backend is told about its termination exactly once")
	}
	vAssert(!wconn.isClosed() && !chanClosed(w.Closed()), "the witness stays connected")
	pub, _ := mkClient(be.MemoryBackend, "p", true)
	vAssert(be.MemoryBackend.Publish(pub, &packet.Message{Topic: "m", Payload: []byte{9}}, nil) == nil, "marker publish")
	vQuiesce()
	vAssert(countType(wconn, packet.PUBLISH) == 1, "the witness still receives messages")
	if conn.isClosed() {
		vAssert(vLive() == 4, "only the witness's goroutines are left")
	}
	vCover("c14-own-queue-full-end")
}

// VerifC14StrayAcks: a client sends acknowledgements that answer nothing (PUBACK / PUBCOMP
// for ids that are not in flight), more of them than the inflight window (1) has slots. The
// broker keeps serving it (PINGREQ answered, DISCONNECT honoured), no goroutine stays
// blocked, the connection is released - and the stray acknowledgements create no extra
// window slots: afterwards still only one QoS 1 message is in flight at a time (C16).
func VerifC14StrayAcks() {
	be := newRecBackend()
	be.ClientInflightMessages = 1
	c, conn := startClient(be, mkConnect("c", vBool("clean"), nil), false)
	s := packet.NewSubscribe()
	s.ID = 1
	s.Subscriptions = []packet.Subscription{{Topic: "t", QOS: 1}}
	conn.in <- s
	vQuiesce()
	n := vLen("strays", 1, 3)
	for i := 0; i < n; i++ {
		if vBool("pubcomp") {
			conn.in <- &packet.Pubcomp{ID: packet.ID(100 + i)}
		} else {
			conn.in <- &packet.Puback{ID: packet.ID(100 + i)}
		}
		vQuiesce()
	}
	vAssert(!conn.isClosed(), "stray acknowledgements do not close the connection")
	conn.in <- packet.NewPingreq()
	vQuiesce()
	vAssert(countType(conn, packet.PINGRESP) == 1, "the broker still answers the client")
	pub, _ := mkClient(be.MemoryBackend, "p", true)
	for i := 0; i < 2; i++ {
		vAssert(be.MemoryBackend.Publish(pub, &packet.Message{Topic: "t", Payload: []byte{byte(i)}, QOS: 1}, nil) == nil, "publish")
		vQuiesce()
	}
	vAssert(countType(conn, packet.PUBLISH) == 1, "stray acknowledgements create no window slots: one message in flight")
	conn.in <- packet.NewDisconnect()
	vQuiesce()
	vAssert(conn.isClosed() && chanClosed(c.Closed()), "DISCONNECT is honoured: connection closed, closed signal fires")
	vAssert(be.terminatesOf(c) == 1, "the backend is told about the termination exactly once")
	vAssert(vLive() == 0, "no goroutine is left blocked")
	vCover("c14-stray-acks-end")
}
