//go:build verif

package broker

import (
	"github.com/256dpi/gomqtt/packet"
	"github.com/256dpi/gomqtt/session"
)

// VerifC15Resend: packets retransmitted after a resume are sent in the order of their
// original transmission (map iteration order is a decision of the engine).
func VerifC15Resend() {
	W := 3
	be := newVBackend(1)
	ms := session.NewMemorySession()
	be.sess = ms
	be.resumed = true
	// original transmission: the real dequeuer path allocates ids and saves in order
	first := packet.ID(vU16("firstid"))
	ms.Counter = session.NewIDCounterWithNext(first)
	n := vLen("n", 2, 3)
	var ids []packet.ID
	for i := 0; i < n; i++ {
		p := packet.NewPublish()
		p.ID = ms.NextID()
		p.Message = packet.Message{Topic: "t", Payload: []byte{byte(i)}, QOS: 1}
		ms.SavePacket(session.Outgoing, p)
		ids = append(ids, p.ID)
	}
	// one of them may have been acknowledged (deleted) or replaced by its PUBREL meanwhile
	switch vChoice("change", 3) {
	case 1:
		k := vLen("acked", 0, n-1)
		ms.DeletePacket(session.Outgoing, ids[k])
		ids = append(ids[:k:k], ids[k+1:]...)
		n--
	case 2:
		k := vLen("released", 0, n-1)
		ms.SavePacket(session.Outgoing, &packet.Pubrel{ID: ids[k]})
	}
	conn := newVConn(false)
	cl := NewClient(be, conn)
	cl.InflightMessages = W
	conn.in <- mkConnect("sub", false, nil)
	vQuiesce()
	vAssert(conn.sentCount() == 1+n, "CONNACK plus the stored packets")
	if conn.sentCount() == 1+n {
		for k := 0; k < n; k++ {
			id, _ := packet.GetID(conn.sentAt(1 + k))
			vAssert(id == ids[k], "retransmissions are sent in the order of their original transmission")
		}
	}
	vCover("c15-resend-end")
}

// VerifC15Fifo: two messages of one publisher reaching a subscriber at the same QoS are
// dequeued in publish order (real MemoryBackend).
func VerifC15Fifo() {
	m := NewMemoryBackend()
	sub, _ := mkClient(m, "s", vBool("clean"))
	pub, _ := mkClient(m, "p", true)
	vAssert(m.Subscribe(sub, []packet.Subscription{{Topic: "#", QOS: symQOS("subqos")}}, nil) == nil, "Subscribe")
	q := symQOS("pubqos")
	n := vLen("n", 2, 3)
	for i := 0; i < n; i++ {
		vAssert(m.Publish(pub, &packet.Message{Topic: "t", Payload: []byte{byte(i)}, QOS: q}, nil) == nil, "Publish")
	}
	for i := 0; i < n; i++ {
		got, _, _ := m.Dequeue(sub)
		vAssert(got != nil && len(got.Payload) == 1 && got.Payload[0] == byte(i), "messages of one publisher at one QoS arrive in publish order")
	}
	vCover("c15-fifo-end")
}
