//go:build verif

package broker

import (
	"github.com/256dpi/gomqtt/packet"
	"github.com/256dpi/gomqtt/session"
)

// VerifC15Resend: packets retransmitted after a resume are sent in the order of their
// original transmission (map iteration order is a decision of the engine).
func VerifC15Resend() {
	W := 3
	be := newVBackend(1)
	ms := session.NewMemorySession()
	be.sess = ms
	be.resumed = true
	// original transmission: the real dequeuer path allocates ids and saves in order
	first := packet.ID(vU16("firstid"))
	ms.Counter = session.NewIDCounterWithNext(first)
	n := vLen("n", 2, 3)
	var ids []packet.ID
	for i := 0; i < n; i++ {
		p := packet.NewPublish()
		p.ID = ms.NextID()
		p.Message = packet.Message{Topic: "t", Payload: []byte{byte(i)}, QOS: 1}
		ms.SavePacket(session.Outgoing, p)
		ids = append(ids, p.ID)
	}
	// one of them may have been acknowledged (deleted) or replaced by its PUBREL meanwhile
	switch vChoice("change", 3) {
	case 1:
		k := vLen("acked", 0, n-1)
		ms.DeletePacket(session.Outgoing, ids[k])
		ids = append(ids[:k:k], ids[k+1:]...)
		n--
	case 2:
		k := vLen("released", 0, n-1)
		ms.SavePacket(session.Outgoing, &packet.Pubrel{ID: ids[k]})
	}
	conn := newVConn(false)
	cl := NewClient(be, conn)
	cl.InflightMessages = W
	conn.in <- mkConnect("sub", false, nil)
	vQuiesce()
	vAssert(conn.sentCount() == 1+n, "CONNACK plus the stored packets")
	if conn.sentCount() == 1+n {
		for k := 0; k < n; k++ {
			id, _ := packet.GetID(conn.sentAt(1 + k))
			vAssert(id == ids[k], "retransmissions are sent in the order of their original transmission")
		}
	}
	vCover("c15-resend-end")
}

// VerifC15Fifo: two messages of one publisher reaching a subscriber at the same QoS are
// dequeued in publish order (real MemoryBackend).
func VerifC15Fifo() {
	m := NewMemoryBackend()
	sub, _ := mkClient(m, "s", vBool("clean"))
	pub, _ := mkClient(m, "p", true)
	vAssert(m.Subscribe(sub, []packet.Subscription{{Topic: "#", QOS: symQOS("subqos")}}, nil) == nil, "Subscribe")
	q := symQOS("pubqos")
	n := vLen("n", 2, 3)
	for i := 0; i < n; i++ {
		vAssert(m.Publish(pub, &packet.Message{Topic: "t", Payload: []byte{byte(i)}, QOS: q}, nil) == nil, "Publish")
	}
	for i := 0; i < n; i++ {
		got, _, _ := m.Dequeue(sub)
		vAssert(got != nil && len(got.Payload) == 1 && got.Payload[0] == byte(i), "messages of one publisher at one QoS arrive in publish order")
	}
	vCover("c15-fifo-end")
}

// VerifC15Backpressure: a subscriber with window 1 and queue capacity 1 that acknowledges each
// message as it arrives, and a publisher that is held back by the full queue: the messages of
// the publisher arrive in publish order (QoS 0 or QoS 1 throughout).
func VerifC15Backpressure() {
	be := newRecBackend()
	be.SessionQueueSize = 1
	be.ClientInflightMessages = 1
	_, sconn := startClient(be, mkConnect("s", vBool("clean"), nil), false)
	sub := packet.NewSubscribe()
	sub.ID = 1
	sub.Subscriptions = []packet.Subscription{{Topic: "t", QOS: 1}}
	sconn.in <- sub
	vQuiesce()
	pub, _ := mkClient(be.MemoryBackend, "p", true)
	q := packet.QOS(vChoice("qos", 2))
	N := vParam("N", 4)
	done := make(chan int, 1)
	go func() {
		for i := 0; i < N; i++ {
			be.MemoryBackend.Publish(pub, &packet.Message{Topic: "t", Payload: []byte{byte(i + 1)}, QOS: q}, nil)
		}
		done <- 1
	}()
	seen := 0
	for round := 0; round < N+1 && seen < N; round++ {
		vQuiesce()
		k := 0
		for i := 0; i < sconn.sentCount(); i++ {
			p, ok := sconn.sentAt(i).(*packet.Publish)
			if !ok {
				continue
			}
			k++
			if k <= seen {
				continue
			}
			vAssert(len(p.Message.Payload) == 1 && p.Message.Payload[0] == byte(k), "messages of one publisher at one QoS arrive in publish order, also under back-pressure")
			seen = k
			if p.Message.QOS == 1 {
				sconn.in <- &packet.Puback{ID: p.ID}
			}
		}
	}
	<-done
	vAssert(seen == N, "every message arrives while the subscriber acknowledges")
	vCover("c15-backpressure-end")
}
