//go:build verif

package broker

import (
	"github.com/256dpi/gomqtt/packet"
	"github.com/256dpi/gomqtt/session"
)

// VerifC07: publisher scripts against the real client goroutines, backend acknowledging
// now / later / never / with an error, sends failing, connection loss + resume.
//   A1 PUBACK/PUBCOMP only after the backend accepted the message
//   A2 PUBREC only while the publisher's session holds the PUBLISH
//   A3 PUBREL for an unknown id is answered by PUBCOMP
//   A4 per QoS 2 handshake the message is accepted by the backend at most once, exactly once when PUBCOMP is written
//   A5 with a live connection and an acknowledging backend every PUBREL has its PUBCOMP
func VerifC07() {
	D := vParam("D", 3)
	be := newVBackend(vParam("MODES", 2))
	be.resumed = true
	open := map[packet.ID]bool{}     // QoS 2 handshake instance open
	accepted := map[packet.ID]int{}  // accepted forwards in the open instance
	acked1 := map[packet.ID]int{}    // accepted QoS 1 publishes per id (cumulative)
	pubacks := map[packet.ID]int{}
	be.onAccept = func(msg *packet.Message) {
		id := packet.ID(msg.Payload[0])
		if msg.QOS == 2 {
			accepted[id]++
			if accepted[id] > 1 {
				if be.reforwarded(msg) {
					vKnownFinding("C07-late-ack-reforward")
					accepted[id] = 1
				} else {
					vAssert(false, "A4: a QoS 2 message is handed on for delivery at most once per handshake")
				}
			}
		} else if msg.QOS == 1 {
			acked1[id]++
		}
	}
	var conn *vConn
	var cl *Client
	monitor := func(pkt packet.Generic) {
		switch p := pkt.(type) {
		case *packet.Puback:
			pubacks[p.ID]++
			vAssert(acked1[p.ID] >= pubacks[p.ID], "A1: PUBACK only after the backend accepted the message")
		case *packet.Pubcomp:
			if open[p.ID] {
				vAssert(accepted[p.ID] == 1, "A1/A4: PUBCOMP only after the backend accepted the message exactly once")
				open[p.ID] = false
				accepted[p.ID] = 0
			}
		case *packet.Pubrec:
			stored, _ := be.sess.LookupPacket(session.Incoming, p.ID)
			_, isPub := stored.(*packet.Publish)
			vAssert(isPub, "A2: PUBREC only while the session holds the PUBLISH")
		}
	}
	connect := func() {
		conn = newVConn(true)
		conn.onSend = monitor
		cl = NewClient(be, conn)
		conn.in <- mkConnect("pub", false, nil)
		vQuiesce()
	}
	connect()
	pubrels, pubcomps0 := 0, 0
	clean := true // no fault / loss / non-acking backend so far
	for step := 0; step < D; step++ {
		alive := !conn.isClosed() && !conn.dead
		switch vChoice("event", 4) {
		case 0: // PUBLISH
			if !alive {
				continue
			}
			id := packet.ID(1 + vChoice("id", 2))
			q := packet.QOS(1 + vChoice("qos", 2))
			p := packet.NewPublish()
			p.ID, p.Dup = id, vBool("dup")
			p.Message = packet.Message{Topic: "t", Payload: []byte{byte(id)}, QOS: q}
			if q == 2 && !open[id] {
				open[id] = true
				accepted[id] = 0
			}
			conn.in <- p
		case 1: // PUBREL
			if !alive {
				continue
			}
			id := packet.ID(1 + vChoice("id", 2))
			before := countType(conn, packet.PUBCOMP)
			known, _ := be.sess.LookupPacket(session.Incoming, id)
			conn.in <- &packet.Pubrel{ID: id}
			vQuiesce()
			if known == nil && !conn.dead && !conn.isClosed() {
				vAssert(countType(conn, packet.PUBCOMP) == before+1, "A3: PUBREL for an unknown id is answered by PUBCOMP at once")
			}
			pubrels++
		case 2: // a late backend acknowledgement arrives
			be.release()
		case 3: // connection lost, publisher resumes the session
			clean = false
			conn.Close()
			close(conn.in)
			vQuiesce()
			vAssert(chanClosed(cl.Closed()), "old client fully terminated")
			pubcomps0 += countType(conn, packet.PUBCOMP)
			connect()
		}
		vQuiesce()
	}
	if conn.dead || be.neverAcked > 0 || be.failed > 0 || len(be.stash) > 0 {
		clean = false
	}
	if clean {
		vCover("c07-clean-run")
		vAssert(pubcomps0+countType(conn, packet.PUBCOMP) == pubrels, "A5: every PUBREL has its PUBCOMP")
		vAssert(!conn.isClosed(), "a well-behaved publisher is not disconnected")
	}
	vCover("c07-end")
}

// VerifC07Retransmit: the retransmission family at depth 5: a QoS 2 publisher whose
// connection may fail at every packet the broker sends, resuming and retransmitting
// PUBLISH (dup) / PUBREL until the handshake completes.
func VerifC07Retransmit() {
	be := newVBackend(1)
	be.resumed = true
	acceptedN := 0
	be.onAccept = func(msg *packet.Message) {
		acceptedN++
		vAssert(acceptedN <= 1, "A4: a QoS 2 message is handed on for delivery at most once per handshake")
	}
	var conn *vConn
	var cl *Client
	completed := false
	monitor := func(pkt packet.Generic) {
		switch p := pkt.(type) {
		case *packet.Pubcomp:
			vAssert(acceptedN == 1, "PUBCOMP only after the message was accepted exactly once")
			completed = true
		case *packet.Pubrec:
			stored, _ := be.sess.LookupPacket(session.Incoming, p.ID)
			_, isPub := stored.(*packet.Publish)
			vAssert(isPub, "A2: PUBREC only while the session holds the PUBLISH")
		}
	}
	connect := func() bool {
		conn = newVConn(true)
		conn.onSend = monitor
		cl = NewClient(be, conn)
		conn.in <- mkConnect("pub", false, nil)
		vQuiesce()
		return !conn.dead && !conn.isClosed()
	}
	lost := func() {
		conn.Close()
		close(conn.in)
		vQuiesce()
		vAssert(chanClosed(cl.Closed()), "old client fully terminated")
	}
	// phase 1: PUBLISH until a PUBREC got through
	rounds := 0
	gotRec := false
	for !gotRec && rounds < 3 {
		rounds++
		if !connect() {
			lost()
			continue
		}
		p := packet.NewPublish()
		p.ID, p.Dup = 5, rounds > 1
		p.Message = packet.Message{Topic: "t", Payload: []byte{5}, QOS: 2}
		conn.in <- p
		vQuiesce()
		if countType(conn, packet.PUBREC) == 1 {
			gotRec = true
		} else {
			lost()
		}
	}
	// phase 2: PUBREL until a PUBCOMP got through
	for gotRec && !completed && rounds < 5 {
		rounds++
		if conn.dead || conn.isClosed() {
			lost()
			if !connect() {
				continue
			}
		}
		conn.in <- &packet.Pubrel{ID: 5}
		vQuiesce()
	}
	if completed {
		vCover("c07-retransmit-completed")
		vAssert(acceptedN == 1, "the message was handed on exactly once when the handshake completed")
	}
	vCover("c07-retransmit-end")
}

// VerifC07LateAck: a backend that acknowledges now, later or never while the publisher
// retransmits PUBREL: no PUBCOMP before the backend accepted, at most one acceptance.
func VerifC07LateAck() {
	be := newVBackend(3) // ack now / stash / never
	be.resumed = true
	acceptedN := 0
	be.onAccept = func(msg *packet.Message) {
		acceptedN++
		if acceptedN > 1 {
			if be.reforwarded(msg) {
				// known finding: a PUBREL retransmitted while the backend has not yet
				// acknowledged the first hand-over is handed over a second time
				vKnownFinding("C07-late-ack-reforward")
				acceptedN = 1
			} else {
				vAssert(false, "A4: a QoS 2 message is handed on for delivery at most once per handshake")
			}
		}
	}
	conn := newVConn(false)
	conn.onSend = func(pkt packet.Generic) {
		if _, ok := pkt.(*packet.Pubcomp); ok {
			vAssert(acceptedN == 1, "A1: PUBCOMP only after the backend has accepted responsibility for the message")
		}
		if p, ok := pkt.(*packet.Puback); ok {
			_ = p
			vAssert(acceptedN == 1, "A1: PUBACK only after the backend has accepted responsibility for the message")
		}
	}
	NewClient(be, conn)
	conn.in <- mkConnect("pub", false, nil)
	vQuiesce()
	q := packet.QOS(1 + vChoice("qos", 2))
	p := packet.NewPublish()
	p.ID = 9
	p.Message = packet.Message{Topic: "t", Payload: []byte{9}, QOS: q}
	conn.in <- p
	vQuiesce()
	rounds := vLen("pubrels", 1, 2)
	if q == 2 {
		for i := 0; i < rounds; i++ {
			conn.in <- &packet.Pubrel{ID: 9} // the second one is a retransmission
			vQuiesce()
			if vBool("release") {
				be.release()
				vQuiesce()
			}
		}
	} else if vBool("release") {
		be.release()
		vQuiesce()
	}
	for be.release() {
		vQuiesce()
	}
	if be.neverAcked == 0 && be.failed == 0 {
		vCover("c07-lateack-acked")
		vAssert(acceptedN == 1, "the message is accepted exactly once when the backend acknowledges")
		if q == 2 {
			vAssert(countType(conn, packet.PUBCOMP) >= 1, "the handshake completes once the backend has acknowledged")
		} else {
			vAssert(countType(conn, packet.PUBACK) == 1, "PUBACK after the acknowledgement")
		}
	}
	vCover("c07-lateack-end")
}

// VerifC07LateAckAfterLoss: the backend's acknowledgement arrives after the publisher's
// connection was lost; the publisher resumes and retransmits PUBREL. The message was accepted
// once and must not be handed on again; the retransmitted PUBREL is answered by PUBCOMP.
func VerifC07LateAckAfterLoss() {
	be := newVBackend(2) // ack now / later
	be.resumed = true
	acceptedN := 0
	be.onAccept = func(msg *packet.Message) {
		acceptedN++
		if acceptedN > 1 {
			if be.reforwarded(msg) {
				vKnownFinding("C07-late-ack-reforward")
				acceptedN = 1
			} else {
				vAssert(false, "A4: a QoS 2 message is handed on for delivery at most once per handshake")
			}
		}
	}
	conn := newVConn(false)
	cl := NewClient(be, conn)
	conn.in <- mkConnect("pub", false, nil)
	vQuiesce()
	p := packet.NewPublish()
	p.ID = 3
	p.Message = packet.Message{Topic: "t", Payload: []byte{3}, QOS: 2}
	conn.in <- p
	vQuiesce()
	conn.in <- &packet.Pubrel{ID: 3}
	vQuiesce()
	// the connection is lost; a stashed acknowledgement arrives before or after the resume
	conn.Close()
	close(conn.in)
	vQuiesce()
	vAssert(chanClosed(cl.Closed()), "old client terminated")
	early := vBool("ack-before-resume")
	if early {
		be.release()
		vQuiesce()
	}
	conn2 := newVConn(false)
	conn2.onSend = func(pkt packet.Generic) {
		if _, ok := pkt.(*packet.Pubcomp); ok {
			vAssert(acceptedN == 1, "A1: PUBCOMP only after the backend has accepted responsibility for the message")
		}
	}
	NewClient(be, conn2)
	conn2.in <- mkConnect("pub", false, nil)
	vQuiesce()
	if !early {
		be.release()
		vQuiesce()
	}
	conn2.in <- &packet.Pubrel{ID: 3} // retransmission after the resume
	vQuiesce()
	for be.release() {
		vQuiesce()
	}
	vAssert(acceptedN == 1, "the message is handed on exactly once across the connection loss")
	vAssert(countType(conn2, packet.PUBCOMP) >= 1, "the retransmitted PUBREL is answered, the handshake terminates")
	vCover("c07-lateack-loss-end")
}
