//go:build verif

package broker

import (
	"sync"

	"github.com/256dpi/gomqtt/packet"
)

// recBackend wraps the real MemoryBackend and records the calls the properties talk about.
type recBackend struct {
	*MemoryBackend
	mu         sync.Mutex
	publishes  []*packet.Message // every Publish call (message as passed)
	pubClients []*Client
	pubRetain  []bool
	setups     int
	terminates []*Client
	subscribes int
	dequeues   int
	failSetup  bool
	failPublish bool
}

func newRecBackend() *recBackend { return &recBackend{MemoryBackend: NewMemoryBackend()} }

func (r *recBackend) Setup(c *Client, id string, clean bool) (Session, bool, error) {
	r.mu.Lock()
	r.setups++
	fail := r.failSetup
	r.mu.Unlock()
	if fail {
		return nil, false, ErrClosing
	}
	return r.MemoryBackend.Setup(c, id, clean)
}

func (r *recBackend) Publish(c *Client, msg *packet.Message, ack Ack) error {
	r.mu.Lock()
	r.publishes = append(r.publishes, msg)
	r.pubClients = append(r.pubClients, c)
	r.pubRetain = append(r.pubRetain, msg.Retain)
	fail := r.failPublish
	r.mu.Unlock()
	if fail {
		return ErrQueueFull
	}
	return r.MemoryBackend.Publish(c, msg, ack)
}

func (r *recBackend) Subscribe(c *Client, subs []packet.Subscription, ack Ack) error {
	r.mu.Lock()
	r.subscribes++
	r.mu.Unlock()
	return r.MemoryBackend.Subscribe(c, subs, ack)
}

func (r *recBackend) Dequeue(c *Client) (*packet.Message, Ack, error) {
	r.mu.Lock()
	r.dequeues++
	r.mu.Unlock()
	return r.MemoryBackend.Dequeue(c)
}

func (r *recBackend) Terminate(c *Client) error {
	r.mu.Lock()
	r.terminates = append(r.terminates, c)
	r.mu.Unlock()
	return r.MemoryBackend.Terminate(c)
}

func (r *recBackend) terminatesOf(c *Client) int {
	r.mu.Lock()
	defer r.mu.Unlock()
	n := 0
	for _, x := range r.terminates {
		if x == c {
			n++
		}
	}
	return n
}

// willPublishes counts Publish calls made for client c with the given message pointer.
func (r *recBackend) publishesOf(c *Client, topic string) int {
	r.mu.Lock()
	defer r.mu.Unlock()
	n := 0
	for i, m := range r.publishes {
		if r.pubClients[i] == c && m.Topic == topic {
			n++
		}
	}
	return n
}

func mkConnect(id string, clean bool, will *packet.Message) *packet.Connect {
	c := packet.NewConnect()
	c.ClientID = id
	c.CleanSession = clean
	c.Will = will
	return c
}

// startClient runs the real NewClient and feeds the CONNECT packet.
func startClient(be Backend, connect *packet.Connect, faults bool) (*Client, *vConn) {
	conn := newVConn(faults)
	c := NewClient(be, conn)
	conn.in <- connect
	vQuiesce()
	return c, conn
}

func countType(conn *vConn, t packet.Type) int {
	n := 0
	for i := 0; i < conn.sentCount(); i++ {
		if conn.sentAt(i).Type() == t {
			n++
		}
	}
	return n
}
