//go:build verif

package broker

import (
	"errors"
	"sync"

	"github.com/256dpi/gomqtt/packet"
	"github.com/256dpi/gomqtt/session"
)

var errVBackend = errors.New("vbackend: injected error")

// vBackend: nondeterministic Backend stub. Publish acknowledges now, later (stashed until
// the harness releases it), never, or fails - a decision per call.
type vBackend struct {
	mu         sync.Mutex
	sess       Session
	resumed    bool
	queue      chan *packet.Message
	modes      int // number of Publish behaviours to explore (1 = always ack now)
	published  []*packet.Message
	accepted   []bool
	stash      []func()
	terminates int
	setups     int
	onAccept   func(msg *packet.Message)
	neverAcked int
	failed     int
	pending    map[*packet.Message]int  // forwards of this message not yet acknowledged
	reforward  map[*packet.Message]bool // forwarded again while an earlier forward was pending
}

func newVBackend(modes int) *vBackend {
	return &vBackend{sess: session.NewMemorySession(), queue: make(chan *packet.Message, 8), modes: modes,
		pending: map[*packet.Message]int{}, reforward: map[*packet.Message]bool{}}
}

func (b *vBackend) Authenticate(*Client, string, string) (bool, error) { return true, nil }

func (b *vBackend) Setup(c *Client, id string, clean bool) (Session, bool, error) {
	b.mu.Lock()
	defer b.mu.Unlock()
	b.setups++
	return b.sess, b.resumed, nil
}

func (b *vBackend) Restore(*Client) error { return nil }

func (b *vBackend) Subscribe(c *Client, subs []packet.Subscription, ack Ack) error {
	if ack != nil {
		ack()
	}
	return nil
}

func (b *vBackend) Unsubscribe(c *Client, topics []string, ack Ack) error {
	if ack != nil {
		ack()
	}
	return nil
}

func (b *vBackend) Publish(c *Client, msg *packet.Message, ack Ack) error {
	b.mu.Lock()
	idx := len(b.published)
	b.published = append(b.published, msg)
	b.accepted = append(b.accepted, false)
	if b.pending[msg] > 0 {
		b.reforward[msg] = true
	}
	b.pending[msg]++
	mode := 0
	if b.modes > 1 {
		mode = vChoice("backend-publish", b.modes)
	}
	accept := func() {
		b.mu.Lock()
		first := !b.accepted[idx]
		b.accepted[idx] = true
		if first {
			b.pending[msg]--
		}
		cb := b.onAccept
		b.mu.Unlock()
		if first && cb != nil {
			cb(msg)
		}
		if ack != nil {
			ack()
		}
	}
	switch mode {
	case 1:
		b.stash = append(b.stash, accept)
		b.mu.Unlock()
		return nil
	case 2:
		b.neverAcked++
		b.mu.Unlock()
		return nil
	case 3:
		b.failed++
		b.mu.Unlock()
		if vBool("queuefull") { // the refusal may be any error, also the broker's own ErrQueueFull
			return ErrQueueFull
		}
		return errVBackend
	}
	b.mu.Unlock()
	accept()
	return nil
}

// release lets one stashed acknowledgement happen now.
func (b *vBackend) release() bool {
	b.mu.Lock()
	if len(b.stash) == 0 {
		b.mu.Unlock()
		return false
	}
	f := b.stash[0]
	b.stash = b.stash[1:]
	b.mu.Unlock()
	f()
	return true
}

func (b *vBackend) Dequeue(c *Client) (*packet.Message, Ack, error) {
	select {
	case m := <-b.queue:
		return m, nil, nil
	case <-c.Closing():
		return nil, nil, nil
	}
}

func (b *vBackend) Terminate(*Client) error {
	b.mu.Lock()
	b.terminates++
	b.mu.Unlock()
	return nil
}

func (b *vBackend) Log(LogEvent, *Client, packet.Generic, *packet.Message, error) {}

// reforwarded: was msg handed to the backend again while an earlier hand-over of the same
// message had not been acknowledged yet?  (predicate of known finding C07-late-ack-reforward)
func (b *vBackend) reforwarded(msg *packet.Message) bool {
	b.mu.Lock()
	defer b.mu.Unlock()
	return b.reforward[msg]
}
