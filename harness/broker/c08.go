//go:build verif

package broker

import (
	"github.com/256dpi/gomqtt/packet"
	"github.com/256dpi/gomqtt/topic"
)

// VerifC08Session: Setup -> Subscribe -> Terminate -> offline publishes -> Setup.
// session-present <=> stored state resumed; offline QoS>=1 messages delivered after the
// resume in publish order up to the capacity; a clean connect discards everything.
func VerifC08Session() {
	L := vParam("L", 2)
	m := NewMemoryBackend()
	m.SessionQueueSize = vLen("capacity", 1, 2)
	clean1 := vBool("clean1")
	c1, _ := mkClient(m, "id", clean1)
	pub, _ := mkClient(m, "p", true)
	f := symFilter("filter", L)
	sq := symQOS("subqos")
	vAssert(m.Subscribe(c1, []packet.Subscription{{Topic: f, QOS: sq}}, nil) == nil, "Subscribe")
	vAssert(m.Terminate(c1) == nil, "Terminate")

	n := vLen("offline", 0, 2)
	var topics []string
	var qos []packet.QOS
	var marks []byte
	for i := 0; i < n; i++ {
		msg := &packet.Message{Topic: symName("topic", L), Payload: []byte{byte(i + 1)}, QOS: symQOS("pubqos")}
		topics, qos, marks = append(topics, msg.Topic), append(qos, msg.QOS), append(marks, byte(i+1))
		vAssert(m.Publish(pub, msg, nil) == nil, "offline Publish succeeds")
	}

	clean2 := vBool("clean2")
	c2 := &Client{backend: m, conn: newVConn(false), closed: make(chan struct{})}
	c2.id = "id"
	s, resumed, err := m.Setup(c2, "id", clean2)
	vAssert(err == nil && s != nil, "second Setup succeeds")
	c2.session = s
	ms := s.(*memorySession)
	vAssert(resumed == (!clean1 && !clean2), "resumed exactly when stored state existed and clean session is off")
	if clean1 || clean2 {
		vCover("c08-session-fresh")
		vAssert(queued(ms) == 0, "a fresh session has no queued messages")
		vAssert(ms.subscriptions.Count() == 0, "a fresh session has no subscriptions")
		out, _ := ms.AllPackets(1)
		vAssert(len(out) == 0, "a fresh session has no stored packets")
	} else {
		vCover("c08-session-resumed")
		// expected: offline messages with QoS >= 1 (after capping) that match, in order, up to capacity
		exp := 0
		var expMark []byte
		var expQ []packet.QOS
		for i := 0; i < n; i++ {
			if qos[i] > 0 && topic.VerifRefMatch(f, topics[i]) && exp < m.SessionQueueSize {
				exp++
				expMark = append(expMark, marks[i])
				expQ = append(expQ, minQ(qos[i], sq))
			}
		}
		vAssert(len(ms.storedQueue) == exp, "offline QoS>=1 messages are queued up to the capacity")
		for k := 0; k < exp; k++ {
			got, _, _ := m.Dequeue(c2)
			if got == nil {
				break
			}
			vAssert(len(got.Payload) == 1 && got.Payload[0] == expMark[k], "offline messages are delivered in publish order")
			vAssert(got.QOS == expQ[k], "offline delivery QoS capped")
		}
		vAssert(ms.subscriptions.Count() == 1, "subscriptions survive the reconnect")
	}
	vCover("c08-session-end")
}
