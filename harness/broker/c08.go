//go:build verif

package broker

import (
	"github.com/256dpi/gomqtt/packet"
	"github.com/256dpi/gomqtt/topic"
)

// VerifC08Session: Setup -> Subscribe -> Terminate -> offline publishes -> Setup.
// session-present <=> stored state resumed; offline QoS>=1 messages delivered after the
// resume in publish order up to the capacity; a clean connect discards everything.
func VerifC08Session() {
	L := vParam("L", 2)
	m := NewMemoryBackend()
	m.SessionQueueSize = vLen("capacity", 1, 2)
	clean1 := vBool("clean1")
	c1, _ := mkClient(m, "id", clean1)
	pub, _ := mkClient(m, "p", true)
	f := symFilter("filter", L)
	sq := symQOS("subqos")
	vAssert(m.Subscribe(c1, []packet.Subscription{{Topic: f, QOS: sq}}, nil) == nil, "Subscribe")
	vAssert(m.Terminate(c1) == nil, "Terminate")
	// optionally a second, online subscriber with its own granted QoS on the same filter: it
	// takes its copies first; what it does with them must not change what the offline client gets
	other := vBool("other")
	var c3 *Client
	var oq packet.QOS
	if other {
		c3, _ = mkClient(m, "o", true)
		oq = symQOS("otherqos")
		vAssert(m.Subscribe(c3, []packet.Subscription{{Topic: f, QOS: oq}}, nil) == nil, "Subscribe")
	}

	n := vLen("offline", 0, 2)
	var topics []string
	var qos []packet.QOS
	var marks []byte
	for i := 0; i < n; i++ {
		msg := &packet.Message{Topic: symName("topic", L), Payload: []byte{byte(i + 1)}, QOS: symQOS("pubqos")}
		topics, qos, marks = append(topics, msg.Topic), append(qos, msg.QOS), append(marks, byte(i+1))
		vAssert(m.Publish(pub, msg, nil) == nil, "offline Publish succeeds")
		if other && topic.VerifRefMatch(f, topics[i]) {
			got, _, _ := m.Dequeue(c3)
			vAssert(got != nil && got.Payload[0] == marks[i], "the online subscriber gets its copy")
			if got != nil {
				vAssert(got.QOS == minQ(qos[i], oq), "at its own capped QoS")
			}
		}
	}

	clean2 := vBool("clean2")
	c2 := &Client{backend: m, conn: newVConn(false), closed: make(chan struct{})}
	c2.id = "id"
	s, resumed, err := m.Setup(c2, "id", clean2)
	vAssert(err == nil && s != nil, "second Setup succeeds")
	c2.session = s
	ms := s.(*memorySession)
	vAssert(resumed == (!clean1 && !clean2), "resumed exactly when stored state existed and clean session is off")
	if clean1 || clean2 {
		vCover("c08-session-fresh")
		vAssert(queued(ms) == 0, "a fresh session has no queued messages")
		vAssert(ms.subscriptions.Count() == 0, "a fresh session has no subscriptions")
		out, _ := ms.AllPackets(1)
		vAssert(len(out) == 0, "a fresh session has no stored packets")
	} else {
		vCover("c08-session-resumed")
		// expected: offline messages with QoS >= 1 (after capping) that match, in order, up to capacity
		exp := 0
		var expMark []byte
		var expQ []packet.QOS
		for i := 0; i < n; i++ {
			if qos[i] > 0 && topic.VerifRefMatch(f, topics[i]) && exp < m.SessionQueueSize {
				exp++
				expMark = append(expMark, marks[i])
				expQ = append(expQ, minQ(qos[i], sq))
			}
		}
		vAssert(len(ms.storedQueue) == exp, "offline QoS>=1 messages are queued up to the capacity")
		for k := 0; k < exp; k++ {
			got, _, _ := m.Dequeue(c2)
			if got == nil {
				break
			}
			vAssert(len(got.Payload) == 1 && got.Payload[0] == expMark[k], "offline messages are delivered in publish order")
			vAssert(got.QOS == expQ[k], "offline delivery QoS capped")
		}
		vAssert(ms.subscriptions.Count() == 1, "subscriptions survive the reconnect")
	}
	vCover("c08-session-end")
}

// VerifC08ResumeFlow: real clients on the real MemoryBackend: a QoS 1/2 message in flight when
// the connection is lost stays recorded, is retransmitted (duplicate) on the resumed connection,
// new messages forwarded afterwards get their own ids and records, and each acknowledgement
// removes exactly its own record.
func VerifC08ResumeFlow() {
	be := newRecBackend()
	q := packet.QOS(1 + vChoice("qos", 2))
	c1, conn1 := startClient(be, mkConnect("c", false, nil), false)
	s := packet.NewSubscribe()
	s.ID = 1
	s.Subscriptions = []packet.Subscription{{Topic: "x", QOS: 2}}
	conn1.in <- s
	vQuiesce()
	pub, _ := mkClient(be.MemoryBackend, "p", true)
	vAssert(be.MemoryBackend.Publish(pub, &packet.Message{Topic: "x", Payload: []byte{1}, QOS: q}, nil) == nil, "publish m1")
	vQuiesce()
	vAssert(countType(conn1, packet.PUBLISH) == 1, "m1 in flight")
	m1 := conn1.sentAt(conn1.sentCount() - 1).(*packet.Publish)
	vAssert(!m1.Dup, "first transmission is not flagged duplicate")
	close(conn1.in)
	vQuiesce()
	vAssert(chanClosed(c1.Closed()), "first connection gone")
	// resume
	c2, conn2 := startClient(be, mkConnect("c", false, nil), false)
	ack, _ := conn2.sentAt(0).(*packet.Connack)
	vAssert(ack != nil && ack.SessionPresent, "session present on resume")
	vAssert(conn2.sentCount() == 2, "m1 retransmitted")
	r1, ok := conn2.sentAt(1).(*packet.Publish)
	vAssert(ok && r1.Dup && r1.ID == m1.ID && r1.Message.QOS == q, "retransmission: same id, flagged duplicate, same QoS")
	// a new message on the resumed connection
	vAssert(be.MemoryBackend.Publish(pub, &packet.Message{Topic: "x", Payload: []byte{2}, QOS: q}, nil) == nil, "publish m2")
	vQuiesce()
	vAssert(conn2.sentCount() == 3, "m2 forwarded")
	m2, ok2 := conn2.sentAt(2).(*packet.Publish)
	vAssert(ok2 && !m2.Dup, "m2 is a new delivery")
	if ok && ok2 {
		vAssert(m2.ID != r1.ID, "a new message never reuses the packet id of an unacknowledged one")
		out, _ := c2.session.AllPackets(1)
		vAssert(len(out) == 2, "both unacknowledged messages are recorded")
		// acknowledge m1 only
		if q == 1 {
			conn2.in <- &packet.Puback{ID: r1.ID}
		} else {
			conn2.in <- &packet.Pubrec{ID: r1.ID}
			vQuiesce()
			conn2.in <- &packet.Pubcomp{ID: r1.ID}
		}
		vQuiesce()
		out, _ = c2.session.AllPackets(1)
		vAssert(len(out) == 1, "the acknowledgement removes exactly its own record")
		if len(out) == 1 {
			id, _ := packet.GetID(out[0])
			vAssert(id == m2.ID, "m2 stays recorded until it is acknowledged itself")
		}
	}
	vCover("c08-resumeflow-end")
}
