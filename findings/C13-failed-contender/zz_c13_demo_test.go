package broker

import (
	"testing"
	"time"

	"github.com/256dpi/gomqtt/packet"
	"github.com/256dpi/gomqtt/transport"
)

type c13StuckBackend struct {
	*MemoryBackend
	gate chan struct{}
}

func (s *c13StuckBackend) Publish(c *Client, msg *packet.Message, ack Ack) error {
	if msg.Topic == "will" {
		<-s.gate
	}
	return s.MemoryBackend.Publish(c, msg, ack)
}

// history: clean connection 1 (with a will) owns id "x"; contender 2 is refused by KillTimeout
// because connection 1 cannot finish terminating (its will publication hangs); contender 3
// (clean) must not be accepted while connection 1 is still terminating.
func TestC13FailedContenderUnregistersOwner(t *testing.T) {
	mb := NewMemoryBackend()
	mb.KillTimeout = 200 * time.Millisecond
	be := &c13StuckBackend{MemoryBackend: mb, gate: make(chan struct{})}
	port, quit, done := Run(NewEngine(be), "tcp")
	defer func() { close(be.gate); close(quit); <-done }()

	connect := func(clean bool, will bool) (transport.Conn, packet.Generic, error) {
		conn, err := transport.Dial("tcp://localhost:" + port)
		if err != nil {
			t.Fatal(err)
		}
		c := packet.NewConnect()
		c.ClientID = "x"
		c.CleanSession = clean
		if will {
			c.Will = &packet.Message{Topic: "will", Payload: []byte{1}}
		}
		if err := conn.Send(c, false); err != nil {
			t.Fatal(err)
		}
		conn.SetReadTimeout(3 * time.Second)
		p, err := conn.Receive()
		return conn, p, err
	}

	_, p1, err := connect(true, true)
	if err != nil || p1.(*packet.Connack).ReturnCode != packet.ConnectionAccepted {
		t.Fatalf("first connection not accepted: %v %v", p1, err)
	}
	_, p2, err2 := connect(false, false)
	if err2 == nil {
		t.Fatalf("contender 2 should be refused by the kill timeout, got %v", p2)
	}
	_, p3, err3 := connect(true, false)
	if err3 == nil {
		t.Fatalf("contender 3 was answered with %v while connection 1 is still terminating (its will is not yet published)", p3)
	}
}
